#!/bin/bash
# tools/seed_sweep.sh <first> <last>: every quick check under VERIF_SEED=first..last on the current tree; any non-zero exit is printed
cd "$(dirname "$0")/.."
export DST_EVIDENCE_DIR=$(mktemp -d /tmp/sweep_ev_XXXX)
export DST_REPLAY_DIR=$PWD/replays/sweep
bad=0
for s in $(seq $1 $2); do
  for p in C08 C14 C15 C17 C18 C19; do
    out=$(VERIF_SEED=$s /venv/bin/python -m dst $p --tier quick 2>&1); rc=$?
    line=$(echo "$out" | tail -1 | cut -c1-160)
    if [ $rc -ne 0 ]; then bad=1; echo "SEED $s $p rc=$rc"; echo "$out" | grep -E "VIOLATION|^  C|HARNESS" | head -6 | cut -c1-400; else echo "seed $s $p ok: $line"; fi
  done
done
rm -rf $DST_EVIDENCE_DIR
exit $bad
