#!/bin/bash
# tools/verify_seed.sh <agent worktree> <seed id> <property>   -- independent confirmation of a seeded change
set -u
WT=$1; ID=$2; PROP=$3
D=/verif/seeded/$ID
mkdir -p $D
cp $WT/seed/patch.diff $WT/seed/demo.py $D/ 2>/dev/null
cp $WT/seed/NOTES.md $D/NOTES.md 2>/dev/null
V=/tmp/vs_$ID
git -C /repo worktree add -q --detach $V HEAD || exit 2
cd $V
git apply $D/patch.diff || { echo "PATCH DOES NOT APPLY"; git -C /repo worktree remove --force $V; exit 2; }
FILES=$(git diff --name-only | tr '\n' ' ')
SUITE=$(PYTHONPATH=$V timeout 1500 /venv/bin/python -m pytest -q -p no:cacheprovider -n 6 2>&1 | tail -1)
mkdir -p $V/seed; cp $D/demo.py $V/seed/demo.py; PYTHONPATH=$V timeout 300 /venv/bin/python $V/seed/demo.py > /tmp/vs_$ID.with.txt 2>&1; RC_WITH=$?
git apply -R $D/patch.diff
PYTHONPATH=$V timeout 300 /venv/bin/python $V/seed/demo.py > /tmp/vs_$ID.without.txt 2>&1; RC_WITHOUT=$?
cd /
git -C /repo worktree remove --force $V
echo "$ID: files=[$FILES] suite='$SUITE' demo_with_rc=$RC_WITH demo_without_rc=$RC_WITHOUT"
tail -2 /tmp/vs_$ID.with.txt
/venv/bin/python - <<PY
import json
json.dump({"id": "$ID", "property": "$PROP", "files_changed": "$FILES".split(),
           "confirmed": {"suite_with_change": """$SUITE""", "demo_exit_with_change": $RC_WITH, "demo_exit_without_change": $RC_WITHOUT},
           "what_i_ran": "git worktree of /repo HEAD under /tmp; git apply patch.diff; full pytest suite (-n 6); demo.py with the change; git apply -R; demo.py without it; worktree removed",
           "needs_to_manifest": "see NOTES.md (written by the sub-agent that produced the change)"},
          open("$D/meta.json", "w"), indent=1)
PY
rm -f /tmp/vs_$ID.with.txt /tmp/vs_$ID.without.txt
