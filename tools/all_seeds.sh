#!/bin/bash
# Re-run every seeded change (must be detected, rc=1) and every benign refactoring (must stay silent, rc=0)
# against the current machinery, under several values of VERIF_SEED.
# Usage: tools/all_seeds.sh [quick|thorough] [seed ...]
cd /verif
TIER=${1:-quick}; shift
SEEDS=${@:-20261003 1 7}
fail=0
# ONLY=benign or ONLY=seeds restricts the pass; MATCH=<regex> restricts ids
for d in seeded/[CR]*; do
  [ "${ONLY:-}" = "benign" ] && continue
  [ -n "${MATCH:-}" ] && ! echo "$(basename $d)" | grep -Eq "$MATCH" && continue
  id=$(basename $d)
  prop=$(python3 -c "import json;m=json.load(open('$d/meta.json'));print(m.get('detected_by',{}).get('check') or m['property'])")
  res=""
  for s in $SEEDS; do
    out=$(VERIF_SEED=$s tools/seedcheck.py $d --tier $TIER --prop $prop --no-shrink 2>&1)
    rc=$(echo "$out" | grep -E "^--- " | sed 's/.*rc=//' | sort -u | tr '\n' ' ')
    if echo "$rc" | grep -q 1; then res="$res D"; else res="$res MISS(seed=$s)"; fail=1; fi
  done
  echo "$id [$prop]$res"
done
for d in seeded/benign/B*; do
  [ "${ONLY:-}" = "seeds" ] && continue
  id=$(basename $d)
  [ -n "${MATCH:-}" ] && ! echo "$id" | grep -Eq "$MATCH" && continue
  props=$(python3 -c "
m={'B08':'C08 C17','B14':'C14 C15','B14b':'C14 C15','B15':'C15 C14','B15b':'C15 C14','B15c':'C15 C14','B17':'C17 C08','B17b':'C17 C08','B08b':'C08 C17','B18b':'C18 C19','B19b':'C19 C18','B18':'C18 C19','B19':'C19 C18','B14c':'C14 C15','B17c':'C17 C08','B08c':'C08 C17','B18c':'C18 C19','B19c':'C19 C18','B15d':'C15 C14','B14d':'C14 C15','B18d':'C18 C19','B19d':'C19 C18','B17d':'C17 C08','B08d':'C08 C17','B15e':'C15 C14','B19e':'C19 C18','B18e':'C18 C19','B17e':'C17 C08'}
print(m.get('$id','C08 C14 C15 C17 C18 C19'))")
  for p in $props; do
    res=""
    for s in $SEEDS; do
      out=$(VERIF_SEED=$s tools/seedcheck.py $d --tier $TIER --prop $p --no-shrink 2>&1)
      rc=$(echo "$out" | grep -E "^--- " | sed 's/.*rc=//')
      if [ "$rc" = "0" ]; then res="$res silent"; else res="$res ALARM(seed=$s,rc=$rc)"; fail=1; fi
    done
    echo "$id [$p]$res"
  done
done
exit $fail
