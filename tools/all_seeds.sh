#!/bin/bash
# Re-run every seeded change (must be detected, rc=1) and every benign refactoring (must stay silent, rc=0)
# against the current machinery.  Usage: tools/all_seeds.sh [quick|thorough]
cd /verif
TIER=${1:-quick}
fail=0
for d in seeded/C*; do
  id=$(basename $d)
  out=$(tools/seedcheck.py $d --tier $TIER 2>&1)
  rc=$(echo "$out" | grep -E "^--- " | sed 's/.*rc=//' | sort -u | tr '\n' ' ')
  keys=$(echo "$out" | grep -E "^  C[0-9]+/" | sed 's/^  //; s/:.*//' | sort -u | tr '\n' ' ')
  if echo "$rc" | grep -q 1; then echo "DETECTED $id rc=[$rc] $keys"; else echo "MISSED   $id rc=[$rc]"; fail=1; fi
done
for d in seeded/benign/B*; do
  id=$(basename $d)
  props=$(python3 -c "
import json,sys
m={'B08':'C08 C17','B14':'C14 C15','B15':'C15 C14','B15b':'C15 C14','B17':'C17 C08','B18':'C18 C19','B19':'C19 C18'}
print(m.get('$id','C08 C14 C15 C17 C18 C19'))")
  for p in $props; do
    out=$(tools/seedcheck.py $d --tier $TIER --prop $p 2>&1)
    rc=$(echo "$out" | grep -E "^--- " | sed 's/.*rc=//')
    if [ "$rc" = "0" ]; then echo "SILENT   $id $p"; else echo "ALARM    $id $p rc=$rc $(echo "$out" | grep -E '^  C[0-9]+/' | head -2 | cut -c1-200)"; fail=1; fi
  done
done
exit $fail
