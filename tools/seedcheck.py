#!/venv/bin/python
"""Run the registered quick (or thorough) check of a seeded change's property against a scratch copy of
/repo with the change applied (VERIF_REPO), never touching /repo.

    tools/seedcheck.py seeded/<id> [--tier quick|thorough] [--runs N] [--all-props] [--prop Cxx] [--no-shrink] [--verify-replay]
"""
import json
import os
import shutil
import subprocess
import sys
import tempfile

VERIF = os.path.dirname(os.path.dirname(os.path.abspath(__file__)))


def main():
    args = sys.argv[1:]
    seed = os.path.abspath(args[0])
    tier = "quick"
    runs = None
    props = None
    if "--tier" in args:
        tier = args[args.index("--tier") + 1]
    if "--runs" in args:
        runs = args[args.index("--runs") + 1]
    meta = {}
    mp = os.path.join(seed, "meta.json")
    if os.path.exists(mp):
        meta = json.load(open(mp))
    props = [meta.get("property")] if meta.get("property") else []
    if "--prop" in args:
        props = [args[args.index("--prop") + 1]]
    if "--all-props" in args:
        props = ["C08", "C14", "C15", "C17", "C18", "C19"]
    tmp = tempfile.mkdtemp(prefix="dst_seed_")
    try:
        subprocess.run(["git", "-C", "/repo", "worktree", "add", "-q", "--detach", tmp + "/wt", "HEAD"], check=True)
        r = subprocess.run(["git", "-C", tmp + "/wt", "apply", os.path.join(seed, "patch.diff")], capture_output=True, text=True)
        if r.returncode:
            print("patch does not apply:", r.stderr)
            return 2
        rc_all = 0
        for p in props:
            env = dict(os.environ)
            env["VERIF_REPO"] = tmp + "/wt"
            env["DST_EVIDENCE_DIR"] = tmp + "/evidence"
            env["DST_REPLAY_DIR"] = os.path.join(VERIF, "replays", "seeded", os.path.basename(seed))
            cmd = [sys.executable, "-m", "dst", p, "--tier", tier]
            if runs:
                cmd += ["--runs", runs]
            if "--no-shrink" in args:
                cmd += ["--no-shrink"]
            out = subprocess.run(cmd, cwd=VERIF, env=env, capture_output=True, text=True)
            print(f"--- {p} rc={out.returncode}")
            print("\n".join(ln[:400] for ln in out.stdout.splitlines()[-12:]))
            if out.returncode not in (0, 1):
                print(out.stderr[-800:])
            rc_all = max(rc_all, out.returncode)
            if "--verify-replay" in args:
                # every replay file the check just wrote must reproduce its violation in a fresh process
                for ln in out.stdout.splitlines():
                    if ln.startswith("VIOLATION property="):
                        path = ln.split("replay=", 1)[1].strip()
                        r2 = subprocess.run([sys.executable, "-m", "dst", p, "--replay", path], cwd=VERIF, env=env,
                                            capture_output=True, text=True)
                        tail = [x for x in r2.stdout.splitlines() if x.strip()][-1:] or [""]
                        print(f"    replay {os.path.basename(path)} rc={r2.returncode} {tail[0][:160]}")
                        if r2.returncode != 1 or "event digest identical" not in r2.stdout:
                            print("    REPLAY NOT EXACT")
                            rc_all = 2
        return rc_all
    finally:
        subprocess.run(["git", "-C", "/repo", "worktree", "remove", "--force", tmp + "/wt"])
        shutil.rmtree(tmp, ignore_errors=True)


if __name__ == "__main__":
    sys.exit(main())
