#!/bin/bash
# Run every registered quick check against /repo exactly as MANIFEST.json registers it, then validate the
# evidence files and the manifest against their schemas.   Usage: tools/full_quick.sh [VERIF_SEED]
cd /verif
export VERIF_SEED=${1:-${VERIF_SEED:-20261003}}
rc=0
for p in C08 C14 C15 C17 C18 C19; do
  cmd=$(python3 -c "import json;print([c['quick_cmd'] for c in json.load(open('MANIFEST.json'))['checks'] if c['property_id']=='$p'][0])")
  out=$($cmd 2>&1); r=$?
  echo "$out" | tail -1
  [ $r -ne 0 ] && { echo "  -> exit $r"; echo "$out" | grep -E "VIOLATION|KNOWN-FINDING|HARNESS" | head; rc=1; }
done
python3-vt - <<'PY' || rc=1
import json, jsonschema, sys
ms = json.load(open('/root/.vp/MANIFEST.schema.json')); es = json.load(open('/root/.vp/EVIDENCE.schema.json'))
jsonschema.validate(json.load(open('/verif/MANIFEST.json')), ms)
for p in ("C08", "C14", "C15", "C17", "C18", "C19"):
    jsonschema.validate(json.load(open(f'/verif/evidence/{p}.json')), es)
print("manifest and 6 evidence files valid")
PY
exit $rc
