#!/venv/bin/python
"""Prompt generator for the independent sub-agents that seed breaking changes (kind=bug) or behaviour-preserving
re-implementations (kind=benign).  The agent sees only the property text and its own scratch worktree.

    git -C /repo worktree add -q --detach /tmp/wt_X HEAD
    tools/seed_prompt.py /tmp/wt_X C15 bug "what the change must need in order to manifest" > /tmp/prompt_X.txt
    (then start an agent with: "Read your complete instructions from the file /tmp/prompt_X.txt ...")
    tools/verify_seed.sh /tmp/wt_X X C15 ; git -C /repo worktree remove --force /tmp/wt_X ; tools/seedcheck.py seeded/X
"""
import json
import os
import sys

wt, pid, kind, flavour = sys.argv[1], sys.argv[2], sys.argv[3], sys.argv[4]
here = os.path.dirname(os.path.dirname(os.path.abspath(__file__)))
prop = None
for line in open(os.path.join(here, "properties.jsonl")):
    p = json.loads(line)
    if p["id"] == pid:
        prop = f"{p['id']}: {p['title']}\n\nSTATEMENT: {p['statement']}\n\nQUANTIFIED OVER: {p['quantifier']['text']}\n"
assert prop, pid
if kind == "bug":
    print(f"""You are helping test a verification framework by seeding a realistic bug. You work ONLY inside the scratch git worktree {wt} of the pure-Python library csingley/ofxtools (OFX parser/serializer, HTTP client `ofxtools/Client.py`, CLI `ofxtools/scripts/ofxget.py`). Do NOT read, list or touch /verif, and do not modify /repo (your worktree {wt} is a separate checkout; only work there).
    
    IMPORTANT environment notes:
    - Use /venv/bin/python (3.12). `import ofxtools` normally resolves to /repo (editable install), so ALWAYS run with the worktree first on the path: `cd {wt} && PYTHONPATH={wt} /venv/bin/python ...` and verify once with `cd {wt} && PYTHONPATH={wt} /venv/bin/python -c "import ofxtools; print(ofxtools.__file__)"` that it prints a path under {wt}.
    - Full test suite (3592 tests, ~30 s): `cd {wt} && PYTHONPATH={wt} /venv/bin/python -m pytest -q -p no:cacheprovider -n 4`. No network is available. The `requests` library is NOT installed (the client uses its urllib branch).
    
    THE PROPERTY (this is all you are told about what is being verified):
    
    {prop}
    
    YOUR TASK: make a change to the library SOURCE (under {wt}/ofxtools/, never the tests) that BREAKS this property while the code still imports/compiles and the ENTIRE existing test suite still passes unedited. The change should look like a plausible regression or refactoring mistake a real contributor could make (not sabotage with random constants), and it must need something SPECIFIC to manifest - {flavour} - rather than something that ordinary use or a trivial smoke test would expose at once. Prefer a small diff (a few lines).
    
    Also write a demonstration: a standalone program {wt}/seed/demo.py (may use unittest.mock, temp dirs, threads, fake HTTP handlers etc., must not need the network; set XDG_* / HOME env vars to temp dirs BEFORE importing ofxtools if it touches config or cache files) that exits 0 on the ORIGINAL code and exits non-zero (assertion failure) WITH your change, showing concretely how the property is violated.
    
    Deliverables (all under {wt}/seed/):
    1. patch.diff  - output of `git -C {wt} diff -- ofxtools` (source change only; make sure seed/ itself is not in it).
    2. demo.py     - the demonstration.
    3. NOTES.md    - which part of the property is broken, what exactly is needed for it to manifest (inputs / sequence / interleaving / fault), and the exact commands you ran with their results: (a) full test suite WITH the change passes, (b) demo fails WITH the change, (c) demo passes WITHOUT the change (use `git apply -R seed/patch.diff` to check, then re-apply with `git apply seed/patch.diff`; NEVER use `git stash`: the stash is shared with sibling worktrees that other people are using right now).
    Leave the worktree with your change applied (uncommitted). Do not commit. In your final answer, summarise the change in 3-5 lines and paste the final test-suite summary line and both demo results.""")
    
else:
    print(f"""You are helping test a verification framework for FALSE ALARMS. You work ONLY inside the scratch git worktree {wt} of the pure-Python library csingley/ofxtools (OFX parser/serializer, HTTP client `ofxtools/Client.py`, CLI `ofxtools/scripts/ofxget.py`). Do NOT read, list or touch /verif, and do not modify /repo (your worktree {wt} is a separate checkout; only work there).
    
    IMPORTANT environment notes:
    - Use /venv/bin/python (3.12). `import ofxtools` normally resolves to /repo (editable install), so ALWAYS run with the worktree first on the path: `cd {wt} && PYTHONPATH={wt} /venv/bin/python ...` and verify once with `cd {wt} && PYTHONPATH={wt} /venv/bin/python -c "import ofxtools; print(ofxtools.__file__)"` that it prints a path under {wt}.
    - Full test suite (3592 tests, ~30-60 s): `cd {wt} && PYTHONPATH={wt} /venv/bin/python -m pytest -q -p no:cacheprovider -n 4`. No network is available. The `requests` library is NOT installed (the client uses its urllib branch). Only the Python standard library may be used. NEVER use `git stash` (the stash is shared with sibling worktrees that other people are using right now); to compare with the original code use `git diff -- ofxtools > seed/patch.diff; git apply -R seed/patch.diff; ...; git apply seed/patch.diff`.
    
    THE PROPERTY that the code currently satisfies and MUST KEEP satisfying:
    
    {prop}
    
    YOUR TASK: make a substantial but BEHAVIOUR-PRESERVING change to the library SOURCE (under {wt}/ofxtools/, never the tests): a real refactoring / re-implementation of the code that this property depends on, such that the property STILL HOLDS in every case (be careful and think about every clause, including crash points, concurrency, failure paths and unusual inputs where the property mentions them), and the entire existing test suite still passes unedited. The point is to implement the same guarantees in a DIFFERENT WAY than the current code does: {flavour}. Aim for 30-150 changed lines. Do not weaken any guarantee; if you are unsure whether an idea preserves the property, pick a different idea.
    
    Deliverables (all under {wt}/seed/):
    1. patch.diff  - output of `git -C {wt} diff -- ofxtools` (source change only).
    2. NOTES.md    - what you changed, which different mechanisms/APIs you used, and a clause-by-clause argument why the property still holds; plus the exact test-suite command and its summary line.
    Leave the worktree with your change applied (uncommitted). Do not commit. In your final answer, summarise the change in 3-6 lines and paste the final test-suite summary line.""")
    
