#!/venv/bin/python
"""tools/findrun.py <Cxx> <regex> [--seed N] [--tier quick] [--first A] [--last B] [--show K]
Run indices A..B of a check's corpus (each in its own child, like the runner does) and print the event log of the
first K runs whose log matches the regex.  Debugging aid only; no verdicts."""
import argparse
import importlib
import os
import re
import sys

sys.path.insert(0, os.path.dirname(os.path.dirname(os.path.abspath(__file__))))
ap = argparse.ArgumentParser()
ap.add_argument("prop")
ap.add_argument("regex")
ap.add_argument("--seed", type=int, default=int(os.environ.get("VERIF_SEED", "20261003")))
ap.add_argument("--tier", default="quick")
ap.add_argument("--first", type=int, default=0)
ap.add_argument("--last", type=int, default=200)
ap.add_argument("--show", type=int, default=1)
a = ap.parse_args()
from dst import runner
if os.environ.get("PYTHONHASHSEED") != "0":
    os.environ["PYTHONHASHSEED"] = "0"
    os.execve(sys.executable, [sys.executable] + sys.argv, dict(os.environ))
from dst import env, simexec
from dst.__main__ import WORLDS
env.bootstrap()
simexec.install()
world = importlib.import_module(WORLDS[a.prop])
if hasattr(world, "prepare"):
    world.prepare(a.tier)
shown = 0
for i in range(a.first, a.last):
    res = runner.run_in_child(world, i, a.tier, a.seed, want_decoded=True)
    log = "\n".join(res.get("decoded") or [])
    if re.search(a.regex, log):
        print(f"===== run index {i} =====")
        print(log)
        shown += 1
        if shown >= a.show:
            break
print(f"shown {shown}")
