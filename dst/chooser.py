"""One integer decides everything: every nondeterministic decision of a simulated
run is a Chooser call.  Generate mode draws from random.Random(run_seed) and
records (label, n, value); replay mode reads values back from a recorded trace
(sequentially, clamped to n-1, 0 once exhausted).  0 is always the simplest
alternative, so zeroing/deleting trace entries simplifies the run (shrinking).
"""
import hashlib
import random


def derive_seed(verif_seed, prop, index):
    h = hashlib.sha256(f"{verif_seed}/{prop}/{index}".encode()).digest()
    return int.from_bytes(h[:8], "big")


class Chooser:
    def __init__(self, seed=None, replay=None):
        self.replay = None if replay is None else [int(v) for v in replay]
        self.rng = random.Random(seed) if replay is None else None
        self.trace = []          # [label, n, value]
        self.pos = 0
        self.seed = seed

    # -- primitive ---------------------------------------------------------
    def _next(self, label, n, gen):
        """gen: callable returning a value in range(n) using self.rng"""
        if n <= 1:
            return 0
        if self.replay is not None:
            if self.pos < len(self.replay):
                v = self.replay[self.pos]
                if v < 0:
                    v = 0
                if v >= n:
                    v = n - 1
            else:
                v = 0
            self.pos += 1
        else:
            v = gen()
        self.trace.append([label, n, v])
        return v

    def pick(self, label, n):
        """uniform 0..n-1"""
        return self._next(label, n, lambda: self.rng.randrange(n))

    def flag(self, label, p):
        """True with probability p (recorded as 1); 0 = False = simplest"""
        return bool(self._next(label, 2, lambda: 1 if self.rng.random() < p else 0))

    def weighted(self, label, weights):
        """index drawn with the given weights; index 0 should be the simplest"""
        n = len(weights)
        tot = float(sum(weights))

        def gen():
            x = self.rng.random() * tot
            acc = 0.0
            for i, w in enumerate(weights):
                acc += w
                if x < acc:
                    return i
            return n - 1

        return self._next(label, n, gen)

    def choice(self, label, seq):
        return seq[self.pick(label, len(seq))]

    def geometric(self, label, mean, cap):
        """small non-negative integer, 0 simplest, capped"""
        def gen():
            v = int(self.rng.expovariate(1.0 / max(mean, 1e-9)))
            return min(v, cap)
        return self._next(label, cap + 1, gen)

    def values(self):
        return [t[2] for t in self.trace]
