"""Generic shrinking of a choice trace.  `test(values)` re-executes the run with the
given replay values and returns True iff the *same violation key* reappears.
Because 0 is always the simplest alternative, deleting and zeroing entries removes
faults and context switches and shortens operation sequences."""
import time


def shrink(values, test, max_evals=250, max_seconds=90.0):
    t0 = time.time()
    evals = [0]
    best = list(values)

    def ok(cand):
        if evals[0] >= max_evals or time.time() - t0 > max_seconds:
            return False
        evals[0] += 1
        return test(cand)

    def budget():
        return evals[0] < max_evals and time.time() - t0 <= max_seconds

    # 1. shortest prefix (everything after it reads as 0)
    lo, hi = 0, len(best)
    while lo < hi and budget():
        mid = (lo + hi) // 2
        if ok(best[:mid]):
            hi = mid
        else:
            lo = mid + 1
    if hi < len(best) and ok(best[:hi]):
        best = best[:hi]
    while best and best[-1] == 0:
        best.pop()

    improved = True
    while improved and budget():
        improved = False
        # 2. delete blocks
        for k in (16, 8, 4, 2, 1):
            i = 0
            while i < len(best) and budget():
                cand = best[:i] + best[i + k:]
                if len(cand) < len(best) and ok(cand):
                    best = cand
                    improved = True
                else:
                    i += k
        # 3. zero blocks, then single values, then lower values
        for k in (8, 2):
            i = 0
            while i < len(best) and budget():
                if any(best[i:i + k]):
                    cand = best[:i] + [0] * len(best[i:i + k]) + best[i + k:]
                    if ok(cand):
                        best = cand
                        improved = True
                i += k
        for i in range(len(best)):
            if not budget():
                break
            v = best[i]
            if v == 0:
                continue
            for nv in (0, v // 2, v - 1):
                if nv >= v or nv < 0:
                    continue
                cand = best[:i] + [nv] + best[i + 1:]
                if ok(cand):
                    best = cand
                    improved = True
                    break
        while best and best[-1] == 0:
            best.pop()
    return best, evals[0]
