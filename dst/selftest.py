"""python -m dst selftest-determinism [--runs N]: for every world, N run indices are executed in fresh
interpreters under PYTHONHASHSEED 0 and 7 and with 1 and 16 lanes; all event-log digests must agree."""
import json
import os
import subprocess
import sys
import time

VERIF = os.path.dirname(os.path.dirname(os.path.abspath(__file__)))
PROPS = ["C08", "C14", "C15", "C17", "C18", "C19"]


def digests(prop, idx, hashseed, jobs, seed):
    env = dict(os.environ)
    env["PYTHONHASHSEED"] = str(hashseed)
    env["DST_NO_REEXEC"] = "1"
    env["PYTHONDONTWRITEBYTECODE"] = "1"
    cmd = [sys.executable, "-m", "dst", prop, "--seed", str(seed), "--jobs", str(jobs), "--digests",
           ",".join(str(i) for i in idx)]
    return subprocess.Popen(cmd, cwd=VERIF, env=env, stdout=subprocess.PIPE, stderr=subprocess.PIPE)


def determinism(a):
    n = a.runs or 200
    bad = 0
    report = {}
    for prop in PROPS:
        t0 = time.time()
        nn = n if prop not in ("C08", "C17") else max(8, n // 4)
        configs = [(0, 16), (7, 16), (0, 1 if nn <= 16 else 4), (7, 3)]
        idx = list(range(nn))
        if prop == "C17":
            idx += list(range(256, 256 + max(16, nn // 2)))     # the opcode-level runs (worlds/c17.py: opcode_run)
        procs = [digests(prop, idx, hs, j, a.seed) for hs, j in configs]
        outs = []
        for p in procs:
            o, e = p.communicate()
            try:
                outs.append(json.loads(o.decode().strip().splitlines()[-1]))
            except Exception:
                outs.append({"error": e.decode()[-500:]})
        mism = 0
        for i in idx:
            vals = {o.get(str(i)) for o in outs}
            if len(vals) != 1 or None in vals:
                mism += 1
        report[prop] = {"seeds": len(idx), "configs": configs, "mismatching_seeds": mism, "wall_s": round(time.time() - t0, 1)}
        print(f"{prop}: {len(idx)} seeds x {len(configs)} fresh interpreters (hashseed, lanes)={configs}: mismatches={mism}", flush=True)
        bad += mism
    with open(os.path.join(VERIF, "evidence", "determinism_selftest.json"), "w") as f:
        json.dump(report, f, indent=1)
    return 1 if bad else 0
