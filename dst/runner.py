"""Runner: seeded search over simulated runs, in forked children of one pristine parent.

main process --fork--> J lanes --fork per run--> child executes world.run(chooser)
Each run is a pure function of (code under test, choice trace).  A lane enforces a
wall-clock watchdog per run; a kill is a HARNESS-ERROR (exit 2), never a success and
never a VIOLATION.
"""
import gc
import hashlib
import json
import os
import select
import signal
import subprocess
import sys
import time
import traceback
from collections import Counter

from .chooser import Chooser, derive_seed
from . import shrink as shrinker

VERIF = os.path.dirname(os.path.dirname(os.path.abspath(__file__)))
KNOWN_FINDINGS = os.path.join(VERIF, "known_findings.json")


# ---------------------------------------------------------------------------
# one run in a forked child
# ---------------------------------------------------------------------------
def _child_body(world, index, tier, seed, replay, want_decoded):
    from . import env
    env.IdSource.n = 0
    env.IdSource.probe_n = 0
    env.IdSource.run = index
    env.Entropy.run = index
    env.Entropy.n = 0
    if env.TEMP_NAMES is not None:
        env.TEMP_NAMES.n = 0        # process-global counter: a run must not inherit what its parent consumed
    import random
    run_seed = derive_seed(seed, world.prop, index)
    random.seed(run_seed)
    ch = Chooser(seed=run_seed) if replay is None else Chooser(replay=replay)
    gc.disable()
    # inside the run the wall clock is the simulated clock too (a change under test may consult time.time(),
    # time.monotonic() or file modification times; they must agree with each other and replay exactly)
    from . import sched as _sched
    _rt, _rm = time.time, time.monotonic
    time.time = lambda: _sched.CURRENT.time() if _sched.CURRENT is not None else _rt()
    time.monotonic = lambda: (_sched.CURRENT.time() - 1.6e9) if _sched.CURRENT is not None else _rm()
    res = world.run(ch, index, tier)
    from . import simfs
    if simfs.FS is not None and simfs.FS.hook_errors:
        res["harness_error"] = "exception inside a simulator callback:\n" + simfs.FS.hook_errors[0]
    res["index"] = index
    res["run_seed"] = run_seed
    res["n_choices"] = len(ch.trace)
    if res.get("violations") or want_decoded:
        res["values"] = ch.values()
        if want_decoded == "full":
            res["trace"] = ch.trace
    else:
        res.pop("decoded", None)
    return res


def run_in_child(world, index, tier, seed, replay=None, want_decoded=False, timeout=120.0):
    """fork, run, return the result dict (or a harness_error record)"""
    r, w = os.pipe()
    sys.stdout.flush()
    sys.stderr.flush()
    pid = os.fork()
    if pid == 0:
        code = 0
        try:
            os.close(r)
            try:
                import faulthandler
                faulthandler.dump_traceback_later(max(timeout - 2.0, 1.0), exit=False)
            except Exception:
                pass
            try:
                res = _child_body(world, index, tier, seed, replay, want_decoded)
            except BaseException:
                res = {"index": index, "harness_error": traceback.format_exc()}
            data = json.dumps(res, default=str).encode()
            off = 0
            while off < len(data):
                off += os.write(w, data[off:off + 65536])
            os.close(w)
        except BaseException:
            code = 3
        finally:
            os._exit(code)
    os.close(w)
    chunks = []
    deadline = time.time() + timeout
    killed = False
    while True:
        left = deadline - time.time()
        if left <= 0:
            killed = True
            break
        rl, _, _ = select.select([r], [], [], min(left, 1.0))
        if rl:
            b = os.read(r, 1 << 20)
            if not b:
                break
            chunks.append(b)
    os.close(r)
    if killed:
        try:
            os.kill(pid, signal.SIGKILL)
        except OSError:
            pass
    os.waitpid(pid, 0)
    if killed:
        return {"index": index, "harness_error": f"watchdog: run {index} exceeded {timeout}s"}
    try:
        return json.loads(b"".join(chunks).decode())
    except Exception as e:
        return {"index": index, "harness_error": f"child died without a result ({e})"}


# ---------------------------------------------------------------------------
# lanes
# ---------------------------------------------------------------------------
def _lane(world, lane, jobs, indices, tier, seed, deadline, out_fd, per_run_timeout, sample_idx, counter):
    consecutive_errors = 0
    while True:
        # lanes take the next index from a shared counter, so a few long runs do not hold up a whole stride
        with counter.get_lock():
            k = counter.value
            counter.value += 1
        if k >= len(indices):
            break
        i = indices[k]
        if time.time() > deadline or consecutive_errors >= 2:
            break
        res = run_in_child(world, i, tier, seed, want_decoded=(i in sample_idx), timeout=per_run_timeout)
        consecutive_errors = consecutive_errors + 1 if res.get("harness_error") else 0
        data = json.dumps(res, default=str).encode() + b"\n"
        off = 0
        while off < len(data):
            off += os.write(out_fd, data[off:off + 65536])
    os.close(out_fd)
    os._exit(0)


def run_batch(world, indices, tier, seed, jobs, wall_budget, per_run_timeout, sample_idx=()):
    """-> list of result dicts, in index order"""
    deadline = time.time() + wall_budget
    jobs = max(1, min(jobs, len(indices)))
    pipes = []
    pids = []
    sys.stdout.flush()
    sys.stderr.flush()
    import multiprocessing
    counter = multiprocessing.get_context("fork").Value("i", 0)
    for lane in range(jobs):
        r, w = os.pipe()
        pid = os.fork()
        if pid == 0:
            os.close(r)
            for rr, _ in pipes:
                os.close(rr)
            try:
                _lane(world, lane, jobs, indices, tier, seed, deadline, w, per_run_timeout,
                      set(sample_idx), counter)
            finally:
                os._exit(0)
        os.close(w)
        pipes.append((r, bytearray()))
        pids.append(pid)
    results = []
    open_fds = {r: buf for r, buf in pipes}
    hard_deadline = deadline + per_run_timeout + 30
    while open_fds:
        if time.time() > hard_deadline:
            for pid in pids:
                try:
                    os.kill(pid, signal.SIGKILL)
                except OSError:
                    pass
            results.append({"index": -1, "harness_error": "lane did not finish before the hard deadline"})
            break
        rl, _, _ = select.select(list(open_fds), [], [], 1.0)
        for r in rl:
            b = os.read(r, 1 << 20)
            buf = open_fds[r]
            if not b:
                os.close(r)
                del open_fds[r]
                continue
            buf.extend(b)
            while True:
                k = buf.find(b"\n")
                if k < 0:
                    break
                line = bytes(buf[:k])
                del buf[:k + 1]
                try:
                    results.append(json.loads(line.decode()))
                except Exception as e:
                    results.append({"index": -1, "harness_error": f"bad lane output: {e}"})
    for pid in pids:
        try:
            os.waitpid(pid, 0)
        except OSError:
            pass
    results.sort(key=lambda d: d.get("index", -1))
    return results


# ---------------------------------------------------------------------------
# known findings
# ---------------------------------------------------------------------------
def load_known():
    try:
        with open(KNOWN_FINDINGS) as f:
            return json.load(f).get("findings", [])
    except FileNotFoundError:
        return []


def match_known(known, prop, viol):
    for k in known:
        if k.get("status") != "open" or k.get("property") != prop:
            continue
        if k.get("key") != viol["key"]:
            continue
        facts = viol.get("facts", {})
        if all(facts.get(a) == b for a, b in k.get("match", {}).items()):
            return k
    return None


# ---------------------------------------------------------------------------
# the check
# ---------------------------------------------------------------------------
def ensure_hashseed():
    if os.environ.get("PYTHONHASHSEED") != "0" and not os.environ.get("DST_NO_REEXEC"):
        env = dict(os.environ)
        env["PYTHONHASHSEED"] = "0"
        env["PYTHONDONTWRITEBYTECODE"] = "1"
        os.execve(sys.executable, [sys.executable, "-m", "dst"] + sys.argv[1:], env)


def digest_subprocess(prop, tier, seed, indices, hashseed):
    """digests of the given run indices computed in a fresh interpreter under another
    PYTHONHASHSEED (determinism self-test)"""
    env = dict(os.environ)
    env["PYTHONHASHSEED"] = str(hashseed)
    env["DST_NO_REEXEC"] = "1"
    env["PYTHONDONTWRITEBYTECODE"] = "1"
    cmd = [sys.executable, "-m", "dst", prop, "--tier", tier, "--seed", str(seed), "--jobs", "4", "--digests",
           ",".join(str(i) for i in indices)]
    return subprocess.Popen(cmd, cwd=VERIF, env=env, stdout=subprocess.PIPE, stderr=subprocess.DEVNULL)


def check(world, tier, seed, jobs=None, runs=None, replay_path=None, digests=None, wall=None,
          no_shrink=False):
    from . import env
    t0 = time.time()
    prop = world.prop
    jobs = jobs or min(16, os.cpu_count() or 1)
    plan = world.plan(tier)
    if runs:
        plan["runs"] = runs
    if wall:
        plan["wall_budget"] = wall
    if no_shrink:
        plan["shrink"] = False
    per_run_timeout = plan.get("per_run_timeout", 120.0)

    if digests is not None:           # helper mode for the determinism self-test
        res = run_batch(world, digests, tier, seed, jobs, 1800, per_run_timeout)
        print(json.dumps({str(r.get("index")): r.get("digest") for r in res}))
        return 0

    if replay_path is not None:
        return replay(world, tier, replay_path, per_run_timeout)

    indices = list(range(plan["runs"]))
    n_self = min(plan.get("selftest", 6), len(indices))
    sub = digest_subprocess(prop, tier, seed, indices[:n_self], 7) if n_self else None
    sample_idx = indices[:3]
    results = run_batch(world, indices, tier, seed, jobs, plan.get("wall_budget", 600), per_run_timeout,
                        sample_idx)
    # determinism self-test: same indices twice here (other lane assignment) + fresh interpreter
    selftest = {"seeds": n_self, "same_process_tree_mismatch": 0, "fresh_interpreter_hashseed7_mismatch": None}
    by_index = {r.get("index"): r for r in results}
    if n_self:
        again = run_batch(world, indices[:n_self], tier, seed, min(4, jobs), 600, per_run_timeout)
        for r in again:
            a = by_index.get(r.get("index"), {})
            if a.get("digest") != r.get("digest"):
                selftest["same_process_tree_mismatch"] += 1
        try:
            out, _ = sub.communicate(timeout=600)
            other = json.loads(out.decode().strip().splitlines()[-1])
            selftest["fresh_interpreter_hashseed7_mismatch"] = sum(
                1 for i in indices[:n_self] if other.get(str(i)) != by_index.get(i, {}).get("digest"))
        except Exception as e:
            selftest["fresh_interpreter_hashseed7_mismatch"] = f"self-test did not complete: {e}"

    harness = [r for r in results if r.get("harness_error")]
    good = [r for r in results if not r.get("harness_error")]
    stats = Counter()
    digs = set()
    scheds = set()
    sim_time = 0.0
    for r in good:
        for k, v in (r.get("stats") or {}).items():
            stats[k] += v
        if r.get("nontrivial"):
            digs.add(r.get("digest"))
        if r.get("sched_digest"):
            scheds.add(r["sched_digest"])
        sim_time += r.get("sim_time_s", 0.0)

    # violations -------------------------------------------------------------
    known = load_known()
    counts = Counter()
    known_lines = {}
    new_by_key = {}
    for r in good:
        for v in r.get("violations") or []:
            k = match_known(known, prop, v)
            if k is not None:
                known_lines[k["what"]] = known_lines.get(k["what"], 0) + 1
                continue
            counts[v["key"]] += 1
            if v["key"] not in new_by_key:
                new_by_key[v["key"]] = (r, v)
    new = [(key, r, v) for key, (r, v) in sorted(new_by_key.items())]
    exit_code = 0
    viol_records = []
    for what, n in sorted(known_lines.items()):
        print(f"KNOWN-FINDING: property={prop} {what} (reproduced in {n} run(s))")
    for key, r, v in new[:plan.get("max_reports", 4)]:
        path = report_violation(world, tier, seed, r, v, per_run_timeout, plan)
        print(f"VIOLATION property={prop} replay={path}")
        print(f"  {key}: {v.get('message', '')}")
        viol_records.append({"key": key, "replay": path, "runs": counts[key], "message": v.get("message")})
        exit_code = 1
    for key, r, v in new[plan.get("max_reports", 4):]:
        print(f"  (also) {key}: {v.get('message', '')} [run {r['index']}]")
        viol_records.append({"key": key, "replay": None, "runs": counts[key], "message": v.get("message")})
    if harness:
        for h in harness[:5]:
            print(f"HARNESS-ERROR property={prop} run={h.get('index')}: {str(h['harness_error'])[-1500:]}",
                  file=sys.stderr)
        if exit_code == 0:
            exit_code = 2
    wall_s = time.time() - t0
    samples = []
    for i in sample_idx:
        r = by_index.get(i)
        if r and not r.get("harness_error"):
            samples.append({"run": i, "summary": r.get("summary"), "trace": (r.get("decoded") or [])[:60]})
    if not samples:
        samples = [{"note": "no sample run completed"}]
    n_eval = len(good)
    ev = {
        "property_id": prop,
        "tier": tier,
        "seed": seed,
        "level": world.level,
        "coverage": dict({
            "evaluations": int(stats.get("evaluations", n_eval)) or n_eval,
            "distinct_nontrivial": len(digs) if "distinct_nontrivial" not in stats else int(stats["distinct_nontrivial"]),
            "rule": world.rule,
            "samples": samples,
            "exhaustive": False,
            "simulated_runs": n_eval,
            "runs_per_hour": int(n_eval / max(wall_s, 1e-6) * 3600),
            "seeds": {"verif_seed": seed, "first_index": 0, "count": len(indices),
                      "derivation": "run_seed = sha256(VERIF_SEED/property/index)[:8]"},
            "simulated_time_s": round(sim_time, 3),
            "fault_counts": {k[6:]: v for k, v in sorted(stats.items()) if k.startswith("fault.")},
            "probes": {k[6:]: v for k, v in sorted(stats.items()) if k.startswith("probe.")},
            "interleavings": len(scheds),
            "other_counters": {k: v for k, v in sorted(stats.items())
                               if not k.startswith(("fault.", "probe.")) and k not in ("evaluations", "distinct_nontrivial")},
            "components": world.components,
            "determinism_selftest": selftest,
            "known_findings_reproduced": known_lines,
            "violation_records": viol_records,
            "harness_errors": len(harness),
            "repo_digest": env.repo_digest(),
        }, **(world.extra_coverage(good) if hasattr(world, "extra_coverage") else {})),
        "assumptions": world.assumptions,
        "wall_s": round(wall_s, 2),
        "violations": len(new),
    }
    evdir = os.environ.get("DST_EVIDENCE_DIR") or os.path.join(VERIF, "evidence")
    os.makedirs(evdir, exist_ok=True)
    with open(os.path.join(evdir, f"{prop}.json"), "w") as f:
        json.dump(ev, f, indent=1, default=str)
    print(f"{prop} {tier}: runs={n_eval} distinct_nontrivial={ev['coverage']['distinct_nontrivial']} "
          f"violations={len(new)} known={len(known_lines)} harness_errors={len(harness)} "
          f"wall={wall_s:.1f}s selftest={selftest}")
    return exit_code


def report_violation(world, tier, seed, r, v, per_run_timeout, plan):
    prop = world.prop
    key = v["key"]
    values = r.get("values") or []
    orig_n = len(values)

    def test(cand):
        rr = run_in_child(world, r["index"], tier, seed, replay=cand, timeout=per_run_timeout)
        return any(x["key"] == key for x in (rr.get("violations") or []))

    shrunk, evals = values, 0
    if plan.get("shrink", True) and values:
        if test(values):
            shrunk, evals = shrinker.shrink(values, test, plan.get("shrink_evals", 200),
                                            plan.get("shrink_seconds", 60.0))
        else:
            print(f"  (warning: recorded trace of run {r['index']} did not reproduce {key} on replay)",
                  file=sys.stderr)
    final = run_in_child(world, r["index"], tier, seed, replay=shrunk, want_decoded="full",
                         timeout=per_run_timeout)
    fv = next((x for x in (final.get("violations") or []) if x["key"] == key), v)
    from . import env
    rec = {
        "format": 1, "property": prop, "world": world.name, "tier": tier,
        "verif_seed": seed, "run_index": r["index"], "run_seed": r.get("run_seed"),
        "violation": fv,
        "choices": final.get("trace") or [["?", 0, x] for x in shrunk],
        "decoded": final.get("decoded") or [],
        "event_digest": final.get("digest"),
        "repo_digest": env.repo_digest(),
        "shrunk_from": {"choices": orig_n}, "shrunk_to": {"choices": len(shrunk)},
        "shrink_evals": evals,
    }
    d = os.path.join(os.environ.get("DST_REPLAY_DIR") or os.path.join(VERIF, "replays"), prop)
    os.makedirs(d, exist_ok=True)
    h = hashlib.sha256(json.dumps([key, shrunk]).encode()).hexdigest()[:12]
    path = os.path.join(d, key.replace("/", "_") + "-" + h + ".json")
    with open(path, "w") as f:
        json.dump(rec, f, indent=1, default=str)
    return path


def replay(world, tier, path, per_run_timeout):
    with open(path) as f:
        rec = json.load(f)
    values = [c[2] for c in rec["choices"]]
    tier = rec.get("tier", tier)
    res = run_in_child(world, rec["run_index"], tier, rec["verif_seed"], replay=values,
                       want_decoded="full", timeout=per_run_timeout)
    if res.get("harness_error"):
        print(f"HARNESS-ERROR replay: {res['harness_error']}", file=sys.stderr)
        return 2
    key = rec["violation"]["key"]
    for ln in res.get("decoded") or []:
        print("   ", ln)
    hit = [v for v in res.get("violations") or [] if v["key"] == key]
    same = res.get("digest") == rec.get("event_digest")
    if hit:
        print(f"VIOLATION property={world.prop} replay={path}")
        print(f"  {key}: {hit[0].get('message')}  (event digest {'identical' if same else 'differs: code changed?'})")
        return 1
    others = [v["key"] for v in res.get("violations") or []]
    print(f"replay no longer fails with {key}" + (f" (other violations: {others})" if others else ""))
    return 1 if others else 0
