"""Simulated universe: discrete-event clock, global event log, and tasks.

Tasks are real Python threads that run strictly one at a time (baton passing):
each task blocks on its own lock; the scheduler (whoever called run_tasks)
releases exactly one and waits for the baton to come back.  Which task runs
next (and, in line mode, for how many traced lines) is a Chooser decision, so
real threads replay exactly.

Two pre-emption granularities:
  * seam level  - a task yields only inside simulator calls (SimFS syscalls,
                  SimNet send/recv, cooperative lock acquire, executor);
  * line level  - sys.settrace 'line' events in frames whose code lives under
                  the given path prefixes decrement a quantum; at zero: yield.
"""
import hashlib
import sys
import threading
import _thread
from collections import Counter

CURRENT = None            # the active Sim (one per process/run)

EPOCH_US = 1_704_067_200_000_000   # 2024-01-01T00:00:00Z


class Deadlock(Exception):
    pass


class StepCap(Exception):
    pass


class Task:
    def __init__(self, sim, name, fn):
        self.sim = sim
        self.name = name
        self.fn = fn
        self.lock = _thread.allocate_lock()
        self.lock.acquire()
        self.done = False
        self.exc = None
        self.result = None
        self.countdown = 0
        self.blocked_on = None
        self.invoke_ev = None
        self.return_ev = None
        self.abandoned = False
        self.park = None
        self.thread = threading.Thread(target=self._run, name=name, daemon=True)
        self.ident = None

    def _run(self):
        self.lock.acquire()              # wait for first baton
        self.ident = _thread.get_ident()
        sim = self.sim
        if sim.line_prefixes:
            sys.settrace(sim._trace)
        try:
            self.result = self.fn()
        except BaseException as e:       # noqa - recorded, judged by the world
            self.exc = e
        finally:
            sys.settrace(None)
            self.done = True
            self.return_ev = sim.evno
            sim.sched_lock.release()     # baton back to the scheduler


class Sim:
    def __init__(self, chooser, line_prefixes=(), mean_quantum=40, step_cap=2_000_000,
                 decoded_cap=4000):
        self.ch = chooser
        self.now_us = EPOCH_US
        self.evno = 0
        self._h = hashlib.sha256()
        self.decoded = []
        self.decoded_cap = decoded_cap
        self.tasks = []
        self.cur = None
        self.sched_lock = _thread.allocate_lock()
        self.sched_lock.acquire()
        self.in_probe = 0
        self.probe_gen = 0
        self.lock_universe = 0        # see CoopLock
        self.restarts = 0
        self.stats = Counter()
        self.line_prefixes = tuple(line_prefixes)
        self.mean_quantum = mean_quantum
        self.steps = 0
        self.step_cap = step_cap
        self.switches = 0
        self.sched_h = hashlib.sha256()     # digest of the (task, place) switch sequence
        self.line_probe = None              # callable(frame) -> None, for reach probes
        self.hot_files = ()                 # file-name suffixes of the hot zone (line mode only)
        self.hot_k = 40
        self.hot_salt = 0
        self.hot_counter = 0
        self.hot_max_stall = 400_000
        self.seam_stall_k = 0               # seam mode: 1/k of the seam visits stall the task
        self.opcode_files = ()              # file-name suffixes traced per *bytecode* (frame.f_trace_opcodes): a
                                            # switch may then fall between two instructions of one source line
        self.passes = {}
        self.aborted = None

    # -- clock ---------------------------------------------------------------
    def time(self):
        return self.now_us / 1e6

    def advance(self, seconds):
        self.now_us += int(seconds * 1e6)

    # -- event log -----------------------------------------------------------
    def log(self, text, quiet=False):
        """Record one event.  Everything observable goes through here; the digest of
        the log is what determinism self-tests compare."""
        self.evno += 1
        who = self.cur.name if (self.cur is not None and self._on_task()) else "main"
        if self.in_probe:
            who += "/probe"
        line = f"#{self.evno} t={self.now_us - EPOCH_US} {who}: {text}"
        self._h.update(line.encode("utf-8", "replace"))
        self._h.update(b"\n")
        if not quiet and len(self.decoded) < self.decoded_cap:
            self.decoded.append(line)
        return self.evno

    def digest(self):
        return self._h.hexdigest()

    def count(self, key, n=1):
        self.stats[key] += n

    # -- tasks ---------------------------------------------------------------
    def _on_task(self):
        t = self.cur
        return t is not None and t.ident == _thread.get_ident()

    def is_task(self):
        return self._on_task()

    def spawn(self, name, fn):
        t = Task(self, name, fn)
        self.tasks.append(t)
        t.thread.start()
        return t

    def yield_point(self, what=""):
        """Called from seams.  A no-op unless the caller is the running sim task."""
        if self.in_probe:
            return
        t = self.cur
        if t is None or t.ident != _thread.get_ident():
            return
        self.steps += 1
        if self.steps > self.step_cap:
            raise StepCap(f"step cap {self.step_cap} exceeded")
        self.sched_h.update(f"{t.name}@{what};".encode())
        if self.seam_stall_k:
            # a slow node: now and then a task is stalled at a seam until another task has come through the
            # same kind of seam (or a bound passes); which visits stall is a pure function of one per-run salt
            self.passes[what] = self.passes.get(what, 0) + 1
            self.hot_counter += 1
            if ((self.hot_counter * 2654435761 + self.hot_salt) >> 9) % self.seam_stall_k == 0:
                t.park = (what, self.passes[what] + 1, self.steps + 400)
                self.stats["probe.stalls_at_seams"] += 1
        self.sched_lock.release()        # give the baton back
        t.lock.acquire()                 # and wait for it

    def abandon_others(self):
        """process death takes every thread with it: all other live tasks stay parked for ever"""
        for t in self.tasks:
            if t is not self.cur and not t.done:
                t.abandoned = True
                t.done = True
                t.return_ev = self.evno

    def abandon_current(self):
        """simulated process death seen from a task: the thread is parked for ever (its Python-level buffers
        are never flushed, its finally-blocks never run) and the scheduler treats it as gone"""
        t = self.cur
        t.abandoned = True
        t.done = True
        t.return_ev = self.evno
        self.sched_lock.release()
        t.lock.acquire()             # never released again

    def block_on(self, lock):
        t = self.cur
        t.blocked_on = lock
        self.count("sched.blocked")
        self.sched_lock.release()
        t.lock.acquire()
        t.blocked_on = None

    def _runnable(self):
        out = []
        parked = []
        for t in self.tasks:
            if t.done:
                continue
            if t.blocked_on is not None and t.blocked_on.locked():
                continue
            if t.park is not None:
                code, target, deadline = t.park
                if self.passes.get(code, 0) < target and self.steps < deadline:
                    parked.append(t)
                    continue
                t.park = None
                self.stats["probe.parks_released_after_another_task_passed"] += 1
            out.append(t)
        if not out and parked:
            for t in parked:            # nobody else can run: a stalled task simply continues
                t.park = None
            self.stats["probe.parks_released_because_alone"] += len(parked)
            return parked
        return out

    def run_tasks(self):
        """Run all spawned tasks to completion under chooser-decided interleaving."""
        last = None
        while True:
            live = [t for t in self.tasks if not t.done]
            if not live:
                break
            r = self._runnable()
            if not r:
                self.aborted = "deadlock"
                raise Deadlock("all live tasks blocked: " + ",".join(t.name for t in live))
            i = self.ch.pick("sched.next", len(r)) if len(r) > 1 else 0
            t = r[i]
            if self.line_prefixes:
                t.countdown = 1 + self.ch.geometric("sched.q", self.mean_quantum, 100000)
            if t is not last:
                self.switches += 1
                last = t
            if t.invoke_ev is None:
                t.invoke_ev = self.evno
            self.cur = t
            t.lock.release()
            self.sched_lock.acquire()
            self.cur = None
            if self.steps > self.step_cap:
                self.aborted = "stepcap"
                raise StepCap(f"step cap {self.step_cap} exceeded")
        done = self.tasks
        self.tasks = []
        for t in done:
            if not t.abandoned:
                t.thread.join()
        return done

    # -- line-level pre-emption ------------------------------------------------
    def _trace(self, frame, event, arg):
        fn = frame.f_code.co_filename
        if fn.startswith(self.line_prefixes):
            if self.opcode_files and fn.endswith(self.opcode_files):
                frame.f_trace_opcodes = True
            return self._line
        return None

    def _line(self, frame, event, arg):
        if event == "return":
            if self.hot_files and frame.f_code.co_filename.endswith(self.hot_files):
                code = frame.f_code
                self.passes[code] = self.passes.get(code, 0) + 1
            return self._line
        if event == "line" or event == "opcode":
            t = self.cur
            if t is None or t.ident != _thread.get_ident():
                return self._line
            self.steps += 1
            t.countdown -= 1
            if self.hot_files and frame.f_code.co_filename.endswith(self.hot_files) and self.steps <= self.step_cap:
                # hot zone (code working on process-wide shared objects): now and then a task is *stalled* at a
                # line there until some other task has gone through the same function, which is what a narrow
                # check-then-act window needs.  Which visits stall is a pure function of one per-run salt.
                self.hot_counter += 1
                if ((self.hot_counter * 2654435761 + self.hot_salt) >> 9) % self.hot_k == 0:
                    code = frame.f_code
                    t.park = (code, self.passes.get(code, 0) + 1, self.steps + self.hot_max_stall)
                    t.countdown = 0
                    self.stats["probe.stalls_in_hot_zone"] += 1
            if t.countdown <= 0:
                if self.steps > self.step_cap:
                    # let the task run to the end un-pre-empted; run_tasks raises afterwards
                    t.countdown = 1 << 60
                    return self._line
                code = frame.f_code
                place = f"{code.co_filename.rsplit('/', 1)[-1]}:{code.co_name}:{frame.f_lineno}"
                if event == "opcode":
                    place += f"+{frame.f_lasti}"
                    self.stats["probe.switch_between_bytecodes_of_a_line"] += 1
                self.sched_h.update(f"{t.name}@{place};".encode())
                if self.line_probe is not None:
                    self.line_probe(code.co_filename, code.co_name, frame.f_lineno)
                self.sched_lock.release()
                t.lock.acquire()
        return self._line


# ---------------------------------------------------------------------------
# Cooperative locks.  Installed (threading.Lock / threading.RLock) before ofxtools and
# the stdlib modules it uses are imported, so that a sim task that would block on a
# lock held by a pre-empted sim task hands the baton back instead of freezing the
# process.  With no simulation active, or on a thread that is not the running sim
# task, they delegate to the real primitive.
# ---------------------------------------------------------------------------
_real_alloc = _thread.allocate_lock


class CoopLock:
    """Lock state exists once per *universe*.  Universe 0 is the process the run started in.  A crash
    probe is a forked universe (a restarted process on a disk snapshot) and a simulated crash-and-restart
    starts a new universe too: in both, locks held by the old process must look free, so every universe
    other than 0 gets its own lock object, created on first use."""

    def __init__(self):
        self._l = _real_alloc()
        self._others = None          # universe id -> lock

    def _lock(self, sim):
        if sim is None or sim.lock_universe == 0:
            return self._l
        d = self._others
        if d is None:
            d = self._others = {}
        u = sim.lock_universe
        l = d.get(u)
        if l is None:
            if len(d) > 12:
                for k in [k for k in d if k[0] == "probe"]:
                    del d[k]         # finished probes are never re-entered; restart universes are kept
            l = d[u] = _real_alloc()
        return l

    def acquire(self, blocking=True, timeout=-1):
        sim = CURRENT
        l = self._lock(sim)
        if sim is None or sim.in_probe or not sim._on_task():
            return l.acquire(blocking, timeout)
        while not l.acquire(False):
            if not blocking:
                return False
            sim.block_on(l)
        return True

    def release(self):
        self._lock(CURRENT).release()

    def locked(self):
        return self._lock(CURRENT).locked()

    __enter__ = acquire

    def __exit__(self, *a):
        self.release()

    def _at_fork_reinit(self):
        self._l._at_fork_reinit()
        self._others = None


class _RState:
    __slots__ = ("owner", "count")

    def __init__(self):
        self.owner = None
        self.count = 0


class CoopRLock:
    """re-entrant lock on top of CoopLock, with owner/count kept per universe as well"""

    def __init__(self):
        self._block = CoopLock()
        self._main = _RState()
        self._others = None

    def _st(self):
        sim = CURRENT
        if sim is None or sim.lock_universe == 0:
            return self._main
        d = self._others
        if d is None:
            d = self._others = {}
        u = sim.lock_universe
        st = d.get(u)
        if st is None:
            if len(d) > 12:
                for k in [k for k in d if k[0] == "probe"]:
                    del d[k]
            st = d[u] = _RState()
        return st

    def acquire(self, blocking=True, timeout=-1):
        st = self._st()
        me = _thread.get_ident()
        if st.owner == me:
            st.count += 1
            return True
        rc = self._block.acquire(blocking, timeout)
        if rc:
            st.owner = me
            st.count = 1
        return rc

    __enter__ = acquire

    def release(self):
        st = self._st()
        if st.owner != _thread.get_ident():
            raise RuntimeError("cannot release un-acquired lock")
        st.count -= 1
        if not st.count:
            st.owner = None
            self._block.release()

    def __exit__(self, *a):
        self.release()

    def locked(self):
        return self._block.locked()

    def _at_fork_reinit(self):
        self._block._at_fork_reinit()
        self._main = _RState()
        self._others = None

    # condition-variable support (threading.Condition uses these if present)
    def _is_owned(self):
        return self._st().owner == _thread.get_ident()

    def _release_save(self):
        st = self._st()
        count, owner = st.count, st.owner
        st.count = 0
        st.owner = None
        self._block.release()
        return (count, owner)

    def _acquire_restore(self, state):
        self._block.acquire()
        st = self._st()
        st.count, st.owner = state


def install_coop_locks():
    threading.Lock = CoopLock
    threading.RLock = CoopRLock
