"""Reference OFX reader / writer used by the oracles.  Deliberately independent of
ofxtools: a hand-written tokenizer (no regular expression shared with Parser.py), a
strict nesting check, v1/v2 header split, entity decoding, OFX date-time -> UTC
instant, path queries, and renderers for the three wire forms.

Grammar accepted by the strict reader:
  file := v1header body | v2header body ;  body := ws elem ws
  elem := '<' TAG '>' ws ( data ( '</' TAG '>' )? | elem* ws '</' TAG '>' )
  TAG  := [A-Z0-9._]+ ; data := [^<]+ (trimmed, non-empty) or one CDATA section
An end tag must name the innermost open aggregate; one root; only white space after it.
"""
import datetime

_TAGCH = set("ABCDEFGHIJKLMNOPQRSTUVWXYZ0123456789._")
WS = " \t\r\n"


class RefError(Exception):
    pass


class Node:
    __slots__ = ("tag", "text", "children", "closed")

    def __init__(self, tag, text=None, children=None):
        self.tag = tag
        self.text = text
        self.children = children if children is not None else []
        self.closed = False

    # path queries -----------------------------------------------------------
    def find(self, path):
        """first descendant along 'A/B/C' (direct children at each step)"""
        cur = self
        for part in path.split("/"):
            nxt = None
            for c in cur.children:
                if c.tag == part:
                    nxt = c
                    break
            if nxt is None:
                return None
            cur = nxt
        return cur

    def findall(self, path):
        parts = path.split("/")
        curs = [self]
        for part in parts:
            nxt = []
            for cur in curs:
                nxt.extend(c for c in cur.children if c.tag == part)
            curs = nxt
        return curs

    def get(self, path, default=None):
        n = self.find(path)
        if n is None or n.text is None:
            return default
        return n.text

    def iter(self):
        yield self
        for c in self.children:
            yield from c.iter()

    def dump(self):
        if self.text is not None:
            return (self.tag, self.text)
        return (self.tag, [c.dump() for c in self.children])


def decode_entities(s):
    if "&" not in s:
        return s
    for a, b in (("&lt;", "<"), ("&gt;", ">"), ("&nbsp;", " "), ("&apos;", "'"),
                 ("&quot;", '"'), ("&amp;", "&")):
        s = s.replace(a, b)
    return s


def encode_entities(s):
    return s.replace("&", "&amp;").replace("<", "&lt;").replace(">", "&gt;")


def tokenize(body):
    """-> list of ('open'|'close'|'text', value, offset).  Raises RefError on a malformed tag."""
    toks = []
    i = 0
    n = len(body)
    while i < n:
        ch = body[i]
        if ch == "<":
            if body.startswith("<![CDATA[", i):
                j = body.find("]]>", i)
                if j < 0:
                    raise RefError(f"unterminated CDATA at {i}")
                toks.append(("text", body[i + 9:j], i))
                i = j + 3
                continue
            if body.startswith("<!--", i) or body.startswith("<?", i):
                # XML comments and processing instructions are inert
                end = "-->" if body.startswith("<!--", i) else "?>"
                j = body.find(end, i + 2)
                if j < 0:
                    raise RefError(f"unterminated comment / processing instruction at {i}")
                i = j + len(end)
                continue
            j = body.find(">", i)
            if j < 0:
                raise RefError(f"unterminated tag at {i}")
            name = body[i + 1:j]
            kind = "open"
            if name.startswith("/"):
                kind = "close"
                name = name[1:]
            if not name or any(c not in _TAGCH for c in name):
                raise RefError(f"bad tag name {name!r} at {i}")
            toks.append((kind, name, i))
            i = j + 1
        else:
            j = body.find("<", i)
            if j < 0:
                j = n
            txt = body[i:j]
            if txt.strip(WS):
                toks.append(("text", txt.strip(WS), i))
            i = j
    return toks


def build_strict(toks):
    """Strict nesting check over a token list -> root Node, or RefError."""
    stack = []
    root = None

    def pop_leaf_if_any():
        if stack and stack[-1].text is not None:
            stack.pop()

    for kind, val, off in toks:
        if kind == "open":
            pop_leaf_if_any()
            if not stack and root is not None:
                raise RefError(f"second top-level element <{val}> at {off}")
            node = Node(val)
            if stack:
                stack[-1].children.append(node)
            else:
                root = node
            stack.append(node)
        elif kind == "text":
            if not stack:
                raise RefError(f"text outside the root at {off}")
            top = stack[-1]
            if top.text is not None or top.children or top.closed:
                raise RefError(f"stray text {val[:20]!r} at {off}")
            top.text = decode_entities(val)
        else:  # close
            if stack and stack[-1].text is not None:
                if stack[-1].tag == val:
                    stack.pop().closed = True
                    continue
                stack.pop()          # data element closed implicitly
            if not stack:
                raise RefError(f"stray end tag </{val}> at {off}")
            if stack[-1].tag != val:
                raise RefError(f"end tag </{val}> does not match open <{stack[-1].tag}> at {off}")
            stack.pop().closed = True
    if stack:
        raise RefError("unclosed: " + "/".join(n.tag for n in stack))
    if root is None:
        raise RefError("no root element")
    return root


def parse_body_strict(body):
    return build_strict(tokenize(body))


def well_formed_tokens(toks):
    try:
        build_strict(toks)
        return True
    except RefError:
        return False


# ---------------------------------------------------------------------------
# headers
# ---------------------------------------------------------------------------
V1_FIELDS = ("OFXHEADER", "DATA", "VERSION", "SECURITY", "ENCODING", "CHARSET", "COMPRESSION",
             "OLDFILEUID", "NEWFILEUID")


def split_file(data):
    """bytes -> (header dict, body str).  Strict: exactly one header of one kind."""
    try:
        text = data.decode("utf-8")
    except UnicodeDecodeError:
        text = data.decode("cp1252", "replace")
    i = text.find("<OFX>")
    if i < 0:
        raise RefError("no <OFX> element")
    head = text[:i]
    body = text[i:]
    hs = head.strip(WS)
    hdr = {}
    if hs.startswith("<?xml"):
        j = hs.find("?>")
        if j < 0:
            raise RefError("bad xml declaration")
        rest = hs[j + 2:].strip(WS)
        if not (rest.startswith("<?OFX") and rest.endswith("?>") and rest.count("<?") == 1):
            raise RefError("bad OFX processing instruction")
        inner = rest[5:-2]
        for part in inner.split():
            k, eq, v = part.partition("=")
            if not eq:
                raise RefError("bad OFX declaration")
            hdr[k] = v.strip("\"'")
        hdr["_kind"] = 2
        if "VERSION" not in hdr or "OFXHEADER" not in hdr:
            raise RefError("v2 header lacks VERSION/OFXHEADER")
    elif hs.startswith("OFXHEADER"):
        lines = [ln for ln in hs.replace("\r", "\n").split("\n") if ln.strip(WS)]
        for ln in lines:
            k, c, v = ln.partition(":")
            if not c or k.strip() not in V1_FIELDS:
                raise RefError(f"bad v1 header line {ln!r}")
            hdr[k.strip()] = v.strip()
        if len(lines) != len(V1_FIELDS):
            raise RefError("v1 header does not have exactly nine fields")
        hdr["_kind"] = 1
    else:
        raise RefError("unrecognised header")
    try:
        hdr["_version"] = int(hdr["VERSION"])
    except (KeyError, ValueError):
        raise RefError("bad VERSION")
    return hdr, body


def parse_file_strict(data):
    hdr, body = split_file(data)
    return hdr, parse_body_strict(body)


# ---------------------------------------------------------------------------
# date-times
# ---------------------------------------------------------------------------
UTC = datetime.timezone.utc


def parse_dt(text):
    """OFX date-time -> aware UTC datetime"""
    s = text.strip()
    off_min = 0
    if "[" in s:
        s, _, z = s.partition("[")
        z = z.rstrip("]")
        z = z.split(":")[0]
        sign = 1
        if z.startswith("-"):
            sign = -1
            z = z[1:]
        elif z.startswith("+"):
            z = z[1:]
        hh, dot, mm = z.partition(".")
        off_min = sign * (int(hh or "0") * 60 + (int(mm) if dot else 0))
    ms = 0
    if "." in s:
        s, _, frac = s.partition(".")
        ms = int(frac[:3].ljust(3, "0"))
    if len(s) == 8:
        s += "000000"
    if len(s) != 14 or not s.isdigit():
        raise RefError(f"bad datetime {text!r}")
    dt = datetime.datetime(int(s[0:4]), int(s[4:6]), int(s[6:8]), int(s[8:10]), int(s[10:12]),
                           int(s[12:14]), ms * 1000, tzinfo=UTC)
    return dt - datetime.timedelta(minutes=off_min)


def fmt_dt(dt, style=0):
    """aware UTC datetime -> OFX text; style selects one of several equivalent notations
    (whole-hour offsets only)."""
    dt = dt.astimezone(UTC)
    if style == 0:
        return dt.strftime("%Y%m%d%H%M%S")
    if style == 1:
        return dt.strftime("%Y%m%d%H%M%S") + ".000[0:GMT]"
    if style == 2:
        loc = dt - datetime.timedelta(hours=5)
        return loc.strftime("%Y%m%d%H%M%S") + ".000[-5:EST]"
    if style == 3:
        loc = dt + datetime.timedelta(hours=2)
        return loc.strftime("%Y%m%d%H%M%S") + "[+2:EET]"
    return dt.strftime("%Y%m%d%H%M%S") + ".000"


# ---------------------------------------------------------------------------
# renderers.  A document is a nested structure: (TAG, "text") for data elements
# and (TAG, [children]) for aggregates.
# ---------------------------------------------------------------------------
def render_body(doc, form, pretty=False):
    """form: 'v1u' (SGML, data end tags omitted), 'v1c' (SGML, closed), 'v2' (XML)"""
    out = []
    nl = "\n" if pretty else ""

    def rec(node, depth):
        tag, val = node
        ind = ("  " * depth) if pretty else ""
        if isinstance(val, str):
            t = encode_entities(val)
            if form == "v1u":
                out.append(f"{ind}<{tag}>{t}{nl}")
            else:
                out.append(f"{ind}<{tag}>{t}</{tag}>{nl}")
        else:
            out.append(f"{ind}<{tag}>{nl}")
            for c in val:
                rec(c, depth + 1)
            out.append(f"{ind}</{tag}>{nl}")
    rec(doc, 0)
    return "".join(out)


def render_header(version, newfileuid="NONE"):
    if version < 200:
        return ("OFXHEADER:100\r\nDATA:OFXSGML\r\nVERSION:%d\r\nSECURITY:NONE\r\nENCODING:USASCII\r\n"
                "CHARSET:1252\r\nCOMPRESSION:NONE\r\nOLDFILEUID:NONE\r\nNEWFILEUID:%s\r\n\r\n"
                % (version, newfileuid))
    return ('<?xml version="1.0" encoding="UTF-8" standalone="no"?>\r\n'
            '<?OFX OFXHEADER="200" VERSION="%d" SECURITY="NONE" OLDFILEUID="NONE" NEWFILEUID="%s"?>\r\n'
            % (version, newfileuid))


def render_file(doc, version, form=None, pretty=False):
    if form is None:
        form = "v2" if version >= 200 else "v1u"
    if version >= 200:
        form = "v2"
    # (the v1 header declares CHARSET:1252, the v2 header UTF-8; ASCII-only documents come out the same)
    return (render_header(version) + render_body(doc, form, pretty)).encode("cp1252" if version < 200 else "utf-8")


def doc_to_node(doc):
    tag, val = doc
    if isinstance(val, str):
        return Node(tag, val)
    return Node(tag, None, [doc_to_node(c) for c in val])
