"""SimNet: an in-process network under the *real* urllib.request / http.client.

install() patches urllib's HTTPHandler.http_open / HTTPSHandler.https_open to call
the real do_open with SimHTTP(S)Connection, whose connect() installs a SimSocket.
Real code therefore builds the opener, runs the cookie processor, formats the request
line and headers and parses the status line, headers, Content-Length and body; the
simulator sees raw bytes per connection and the (scheme, host, port) dialled.

Send and receive are separate scheduler events.  Faults are chosen by the world's
fault policy (a callable) per connection.
"""
import http.client
import io
import urllib.request

NET = None          # the active SimNet

# fault kinds (a connection gets at most one)
F_NONE = "none"
F_REFUSED = "refused"            # connect() raises ConnectionRefusedError
F_RESET_BEFORE = "reset-before"  # reset while sending: server never sees the request
F_RESET_AFTER = "reset-after"    # server processed the request, reply lost
F_TIMEOUT = "timeout"            # no reply within the caller's timeout (server never saw it)
F_TIMEOUT_AFTER = "timeout-after"  # server processed the request; reply arrives too late
F_HTTP500 = "http500"            # server answers 500 without processing
F_SHORT_LEN = "short-len"        # body shorter than Content-Length -> IncompleteRead
F_CUT_CLOSE = "cut-close"        # close-delimited body cut short (silent truncation)
F_GARBAGE = "garbage"            # 200 OK with a non-OFX body
ALL_FAULTS = [F_REFUSED, F_RESET_BEFORE, F_RESET_AFTER, F_TIMEOUT, F_TIMEOUT_AFTER, F_HTTP500,
              F_SHORT_LEN, F_CUT_CLOSE, F_GARBAGE]


class HttpRequest:
    def __init__(self, raw):
        self.raw = raw
        head, sep, body = raw.partition(b"\r\n\r\n")
        self.well_formed = bool(sep)
        lines = head.decode("iso-8859-1").split("\r\n")
        parts = lines[0].split(" ")
        self.method = parts[0] if parts else ""
        self.target = parts[1] if len(parts) > 1 else ""
        self.http_version = parts[2] if len(parts) > 2 else ""
        self.headers = []
        for ln in lines[1:]:
            k, c, v = ln.partition(":")
            if not c:
                self.well_formed = False
                continue
            self.headers.append((k.strip(), v.strip()))
        self.body = body

    def header_all(self, name):
        name = name.lower()
        return [v for k, v in self.headers if k.lower() == name]

    def header(self, name, default=None):
        v = self.header_all(name)
        return v[0] if v else default


class HttpResponse:
    def __init__(self, status=200, reason="OK", headers=None, body=b"", close_delimited=False):
        self.status = status
        self.reason = reason
        self.headers = list(headers or [])
        self.body = body
        self.close_delimited = close_delimited

    def to_bytes(self, declared_len=None):
        out = [f"HTTP/1.1 {self.status} {self.reason}".encode()]
        for k, v in self.headers:
            out.append(f"{k}: {v}".encode("iso-8859-1"))
        if self.close_delimited:
            out.append(b"Connection: close")
        else:
            n = len(self.body) if declared_len is None else declared_len
            out.append(f"Content-Length: {n}".encode())
        return b"\r\n".join(out) + b"\r\n\r\n" + self.body


class Conn:
    """one recorded connection"""
    __slots__ = ("id", "scheme", "host", "port", "timeout", "task", "op", "ev_connect", "ev_send",
                 "ev_recv", "request", "fault", "cut", "response", "delivered", "server_saw",
                 "raw_out")

    def __init__(self):
        self.request = None
        self.fault = F_NONE
        self.cut = None
        self.response = None
        self.delivered = False
        self.server_saw = False
        self.ev_send = self.ev_recv = None
        self.raw_out = b""


class SimNet:
    def __init__(self, sim):
        self.sim = sim
        self.servers = {}            # (scheme, host, port) -> handler(conn, HttpRequest) -> HttpResponse
        self.conns = []
        self.fault_policy = None     # callable(conn) -> (fault kind, cut fraction 0..1) ; None = no faults
        self.current_op = None       # set by worlds: label of the operation a main-thread call belongs to
        self.op_of_task = {}         # task name -> op label (concurrent variant)
        self.latency = None          # callable() -> seconds

    def register(self, scheme, host, port, handler, target=None, match=None):
        """several servers may share one (scheme, host, port) and be told apart by request target
        (path + query); target None = any target.  Host names are case-insensitive.  Several *tenants* may even
        share one URL (a processor hosting many institutions): `match(request)` tells whose request it is; the
        handler registered without `match` gets what no tenant claims."""
        slot = self.servers.setdefault((scheme, host.lower(), port), {}).setdefault(target, [])
        if match is None:
            slot[:] = [e for e in slot if e[0] is not None]
            slot.append((None, handler))
        else:
            slot.insert(0, (match, handler))

    def handler_for(self, c, req):
        hs = self.servers.get((c.scheme, c.host.lower(), c.port), {})
        for key in (req.target, None):
            for match, handler in hs.get(key, ()):
                if match is None or match(req):
                    return handler
        return None

    def _op(self):
        sim = self.sim
        if sim.in_probe:
            return "probe"
        if sim.is_task():
            return self.op_of_task.get(sim.cur.name, self.current_op)
        return self.current_op

    # called by SimHTTPConnection.connect
    def connect(self, scheme, host, port, timeout):
        sim = self.sim
        sim.yield_point("net.connect")
        c = Conn()
        c.id = len(self.conns)
        c.scheme, c.host, c.port, c.timeout = scheme, host, port, timeout
        c.task = sim.cur.name if sim.is_task() else "main"
        c.op = self._op()
        fault, cut = (F_NONE, None)
        if self.fault_policy is not None and not sim.in_probe:
            fault, cut = self.fault_policy(c)
        c.fault, c.cut = fault, cut
        self.conns.append(c)
        c.ev_connect = sim.log(f"net connect c{c.id} {scheme}://{host}:{port}"
                               + (f" fault={fault}" if fault != F_NONE else ""),
                               quiet=bool(sim.in_probe))
        if fault != F_NONE:
            sim.count("fault.net." + fault)
        if (scheme, host.lower(), port) not in self.servers:
            raise ConnectionRefusedError(111, "Connection refused (no such sim server)")
        if fault == F_REFUSED:
            raise ConnectionRefusedError(111, "Connection refused")
        return c

    def exchange(self, c):
        """request bytes are complete (c.raw_out); produce the response bytes or raise."""
        sim = self.sim
        sim.yield_point("net.send")
        if self.latency is not None and not sim.in_probe:
            sim.advance(self.latency())
        req = HttpRequest(c.raw_out)
        c.request = req
        if c.fault == F_RESET_BEFORE:
            c.ev_send = sim.log(f"net c{c.id} reset before request reached the server")
            raise ConnectionResetError(104, "Connection reset by peer")
        if c.fault == F_TIMEOUT:
            c.ev_send = sim.log(f"net c{c.id} request lost; caller times out after {c.timeout}s")
            sim.advance(c.timeout or 10.0)
            raise TimeoutError("timed out")
        if c.fault == F_HTTP500:
            c.ev_send = sim.log(f"net c{c.id} {req.method} {req.target} -> 500 (not processed)")
            resp = HttpResponse(500, "Internal Server Error", [("Content-Type", "text/plain")], b"oops")
            c.response = resp
            sim.yield_point("net.recv")
            c.ev_recv = sim.log(f"net c{c.id} recv 500", quiet=bool(sim.in_probe))
            c.delivered = True
            return resp.to_bytes()
        handler = self.handler_for(c, req)
        if handler is None:
            c.ev_send = sim.log(f"net c{c.id} {req.method} {req.target} -> 404 (no such resource)", quiet=bool(sim.in_probe))
            resp = HttpResponse(404, "Not Found", [("Content-Type", "text/plain")], b"not found")
            c.response = resp
            sim.yield_point("net.recv")
            c.ev_recv = sim.log(f"net c{c.id} recv 404", quiet=bool(sim.in_probe))
            c.delivered = True
            return resp.to_bytes()
        c.server_saw = True
        c.ev_send = sim.log(f"net c{c.id} {req.method} {req.target} len={len(req.body)} -> server",
                            quiet=bool(sim.in_probe))
        resp = handler(c, req)
        c.response = resp
        sim.yield_point("net.recv")
        if self.latency is not None and not sim.in_probe:
            sim.advance(self.latency())
        if c.fault == F_RESET_AFTER:
            c.ev_recv = sim.log(f"net c{c.id} reset after server processed the request")
            raise ConnectionResetError(104, "Connection reset by peer")
        if c.fault == F_TIMEOUT_AFTER:
            c.ev_recv = sim.log(f"net c{c.id} reply too late; caller times out after {c.timeout}s")
            sim.advance(c.timeout or 10.0)
            raise TimeoutError("timed out")
        if c.fault == F_GARBAGE:
            body = b"<html><body>Service temporarily unavailable</body></html>"
            c.ev_recv = sim.log(f"net c{c.id} recv 200 garbage body")
            c.delivered = True
            return HttpResponse(200, "OK", [("Content-Type", "text/html")], body).to_bytes()
        if c.fault == F_SHORT_LEN:
            k = int(len(resp.body) * (c.cut or 0.5))
            k = max(0, min(len(resp.body) - 1, k))
            c.ev_recv = sim.log(f"net c{c.id} recv {resp.status} body cut {k}/{len(resp.body)} (length declared)")
            full = HttpResponse(resp.status, resp.reason, resp.headers, resp.body[:k])
            return full.to_bytes(declared_len=len(resp.body))
        if c.fault == F_CUT_CLOSE:
            k = int(len(resp.body) * (c.cut or 0.5))
            k = max(0, min(len(resp.body) - 1, k))
            c.ev_recv = sim.log(f"net c{c.id} recv {resp.status} close-delimited body cut {k}/{len(resp.body)}")
            return HttpResponse(resp.status, resp.reason, resp.headers, resp.body[:k],
                                close_delimited=True).to_bytes()
        c.ev_recv = sim.log(f"net c{c.id} recv {resp.status} len={len(resp.body)}",
                            quiet=bool(sim.in_probe))
        c.delivered = True
        return resp.to_bytes()


class SimSocket:
    def __init__(self, conn):
        self.c = conn

    def sendall(self, data):
        if hasattr(data, "read"):
            data = data.read()
        self.c.raw_out += bytes(data)

    send = sendall

    def makefile(self, mode="rb", *a, **k):
        return io.BytesIO(NET.exchange(self.c))

    def close(self):
        pass

    def shutdown(self, how):
        pass

    def settimeout(self, t):
        pass

    def setsockopt(self, *a):
        pass

    def fileno(self):
        return -1


class SimHTTPConnection(http.client.HTTPConnection):
    sim_scheme = "http"

    def connect(self):
        c = NET.connect(self.sim_scheme, self.host, self.port, self.timeout)
        self.sock = SimSocket(c)


class SimHTTPSConnection(SimHTTPConnection):
    sim_scheme = "https"
    default_port = 443

    def __init__(self, host, port=None, *, timeout=None, context=None, check_hostname=None, **kw):
        if timeout is None:
            super().__init__(host, port)
        else:
            super().__init__(host, port, timeout=timeout)


_installed = False


def install():
    global _installed
    if _installed:
        return
    _installed = True
    urllib.request.HTTPHandler.http_open = lambda self, req: self.do_open(SimHTTPConnection, req)
    if hasattr(urllib.request, "HTTPSHandler"):
        urllib.request.HTTPSHandler.https_open = \
            lambda self, req: self.do_open(SimHTTPSConnection, req)
    # TLS is out of scope; building the default context also costs ~30 ms per build_opener()
    http.client._create_https_context = lambda http_version: None

    # code that talks to http.client directly (no urllib opener) lands on the simulated network too
    def _connect_http(self):
        self.sock = SimSocket(NET.connect("http", self.host, self.port, self.timeout))

    def _connect_https(self):
        self.sock = SimSocket(NET.connect("https", self.host, self.port, self.timeout))
    http.client.HTTPConnection.connect = _connect_http
    http.client.HTTPSConnection.connect = _connect_https
    SimHTTPConnection.connect = SimHTTPConnection.__dict__["connect"]


def mount(net):
    global NET
    install()
    NET = net
    return net
