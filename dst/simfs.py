"""SimFS: an in-memory POSIX-like file system mounted at /simfs.

install() patches builtins.open / io.open and the os.* entry points so that paths
under /simfs (and fake file descriptors >= FD_BASE) go to the simulator and
everything else falls through to the real function.  Files are opened as real
io.Buffered*/TextIOWrapper objects over a SimRaw, so CPython's own buffering
decides when bytes reach the "kernel".

Crash model = process death: bytes handed to a completed write syscall survive,
bytes still in a Python buffer are lost, the syscall in flight may be cut short
(torn write).  Every mutation calls fs.on_mutation(kind, path, info) *after* it has
been applied; writes additionally call fs.on_torn(path, node, pos, data) *before*
they are applied so that the world can probe a torn prefix.
"""
import builtins
import errno
import io
import os
import stat as statmod

ROOT = "/simfs"
FD_BASE = 1_000_000
_LONGNUM = __import__("re").compile(r"\d{10,}")

FS = None                 # the mounted SimFS (module global, one per process)


class FileNode:
    __slots__ = ("data", "ino", "flock_owner", "mtime")

    def __init__(self, data=b""):
        self.data = bytearray(data)
        self.ino = 0
        self.flock_owner = None        # open file description holding an exclusive flock
        self.mtime = 0.0               # simulated time of the last modification

    def clone(self, idmap=None):
        n = FileNode(self.data)
        n.mtime = self.mtime
        if idmap is not None:
            idmap[id(self)] = n
        return n


class DirNode:
    __slots__ = ("children", "ino", "flock_owner")

    def __init__(self):
        self.children = {}
        self.ino = 0
        self.flock_owner = None

    def clone(self, idmap=None):
        d = DirNode()
        if idmap is not None:
            idmap[id(self)] = d
        seen = {}
        for k, v in self.children.items():
            # hard links: one node under two names stays one node
            if id(v) in seen:
                d.children[k] = seen[id(v)]
            else:
                d.children[k] = seen[id(v)] = v.clone(idmap)
        return d


def _p(path):
    p = os.fspath(path)
    if isinstance(p, bytes):
        p = p.decode("utf-8", "surrogateescape")
    return p


def virt(path):
    if isinstance(path, int):
        return path >= FD_BASE
    try:
        p = os.fspath(path)
    except TypeError:
        return False
    if isinstance(p, bytes):
        p = p.decode("utf-8", "replace")
    return isinstance(p, str) and (p == ROOT or p.startswith(ROOT + "/"))


class SimFS:
    def __init__(self, sim=None):
        self.root = DirNode()
        self.sim = sim
        self.fds = {}
        self.next_fd = FD_BASE
        self.bufsize = 8192
        self.on_mutation = None        # callable(kind, path, info)
        self.on_torn = None            # callable(path, node, pos, data)
        self.faults = None             # callable(op, path) -> None or raises OSError
        self.short_write = None        # callable(path, n) -> k < n for a short write, or None
        self.open_writers = {}         # path -> count of open writable descriptions
        self.open_raws = []            # SimRaw objects not yet closed (renames update their names)
        self.hook_errors = []          # exceptions raised by world callbacks (harness bugs, never swallowed silently)
        self.max_concurrent_writers = 0

    # -- helpers ------------------------------------------------------------
    def _split(self, path):
        p = os.path.normpath(_p(path))
        if not (p == ROOT or p.startswith(ROOT + "/")):
            raise FileNotFoundError(errno.ENOENT, "not under simfs", p)
        return [c for c in p[len(ROOT):].split("/") if c]

    def lookup(self, path):
        n = self.root
        for c in self._split(path):
            if not isinstance(n, DirNode):
                raise NotADirectoryError(errno.ENOTDIR, "Not a directory", _p(path))
            if c not in n.children:
                raise FileNotFoundError(errno.ENOENT, "No such file or directory", _p(path))
            n = n.children[c]
        return n

    def parent(self, path):
        parts = self._split(path)
        if not parts:
            raise PermissionError(errno.EPERM, "root", _p(path))
        n = self.root
        for c in parts[:-1]:
            if not isinstance(n, DirNode):
                raise NotADirectoryError(errno.ENOTDIR, "Not a directory", _p(path))
            if c not in n.children:
                raise FileNotFoundError(errno.ENOENT, "No such file or directory", _p(path))
            n = n.children[c]
        if not isinstance(n, DirNode):
            raise NotADirectoryError(errno.ENOTDIR, "Not a directory", _p(path))
        return n, parts[-1]

    def exists(self, path):
        try:
            self.lookup(path)
            return True
        except OSError:
            return False

    def read_bytes(self, path):
        n = self.lookup(path)
        return bytes(n.data)

    def write_bytes(self, path, data):
        """direct (un-simulated) write used by worlds to prepare the disk"""
        parts = self._split(path)
        n = self.root
        for c in parts[:-1]:
            n = n.children.setdefault(c, DirNode())
        n.children[parts[-1]] = FileNode(data)

    def makedirs(self, path):
        n = self.root
        for c in self._split(path):
            n = n.children.setdefault(c, DirNode())

    def drop_process_state(self):
        """a killed process loses its descriptors and with them its advisory locks"""
        def rec(n):
            n.flock_owner = None
            if isinstance(n, DirNode):
                for c in n.children.values():
                    rec(c)
        rec(self.root)
        self.open_raws = []
        self.fds = {}
        self.open_writers = {}

    def snapshot(self, idmap=None):
        return self.root.clone(idmap)

    def walk_files(self, node=None, prefix=ROOT):
        node = node or self.root
        out = {}
        for k in sorted(node.children):
            v = node.children[k]
            p = prefix + "/" + k
            if isinstance(v, DirNode):
                out.update(self.walk_files(v, p))
            else:
                out[p] = bytes(v.data)
        return out

    # -- event plumbing -------------------------------------------------------
    def _yield(self, what):
        if self.sim is not None:
            self.sim.yield_point("fs." + what)

    def _log(self, text):
        if self.sim is not None:
            # thread idents and the like inside file names would make the event log differ between interpreters
            if any(c.isdigit() for c in text):
                text = _LONGNUM.sub("<n>", text)
            self.sim.log("fs " + text, quiet=bool(self.sim.in_probe))

    def _fault(self, op, path):
        if self.faults is not None and not (self.sim is not None and self.sim.in_probe):
            self.faults(op, path)

    def _mutated(self, kind, path, info=None):
        if self.on_mutation is not None and not (self.sim is not None and self.sim.in_probe):
            try:
                self.on_mutation(kind, path, info)
            except Exception:          # a bug in the harness must never surface inside the code under test
                import traceback
                self.hook_errors.append(traceback.format_exc())

    def _torn(self, raw, pos, data):
        if self.on_torn is not None and not (self.sim is not None and self.sim.in_probe):
            try:
                self.on_torn(raw.name, raw.node, pos, data)
            except Exception:
                import traceback
                self.hook_errors.append(traceback.format_exc())

    # -- syscalls ---------------------------------------------------------------
    def sys_open(self, path, m, excl=False, trunc=False, creat=False, append=False,
                 readable=False, writable=False, allow_dir=False):
        path = os.path.normpath(_p(path))
        self._yield("open")
        self._fault("open", path)
        parent, name = self.parent(path)
        node = parent.children.get(name)
        created = False
        if node is None:
            if not creat:
                raise FileNotFoundError(errno.ENOENT, "No such file or directory", path)
            node = parent.children[name] = FileNode()
            if self.sim is not None:
                node.mtime = self.sim.time()
            created = True
        else:
            if excl and creat:
                raise FileExistsError(errno.EEXIST, "File exists", path)
            if isinstance(node, DirNode):
                if writable or not allow_dir:
                    raise IsADirectoryError(errno.EISDIR, "Is a directory", path)
                raw = SimRaw(self, node, path, True, False, False)   # a directory handle (for fsync / fstat / flock)
                self.open_raws.append(raw)
                return raw
        truncated = False
        if trunc and len(node.data):
            del node.data[:]
            truncated = True
        raw = SimRaw(self, node, path, readable, writable, append)
        self.open_raws.append(raw)
        self._log(f"open {path} {m}" + (" +creat" if created else "") + (" +trunc" if truncated else ""))
        if writable:
            c = self.open_writers.get(path, 0) + 1
            self.open_writers[path] = c
            if c > self.max_concurrent_writers:
                self.max_concurrent_writers = c
        if created or truncated or (trunc and writable):
            self._mutated("open-trunc" if not created else "open-creat", path, None)
        return raw

    def sys_mkdir(self, path):
        path = os.path.normpath(_p(path))
        self._yield("mkdir")
        self._fault("mkdir", path)
        parent, name = self.parent(path)
        if name in parent.children:
            raise FileExistsError(errno.EEXIST, "File exists", path)
        parent.children[name] = DirNode()
        self._log(f"mkdir {path}")
        self._mutated("mkdir", path, None)

    def sys_rmdir(self, path):
        path = os.path.normpath(_p(path))
        self._yield("rmdir")
        parent, name = self.parent(path)
        n = parent.children.get(name)
        if n is None:
            raise FileNotFoundError(errno.ENOENT, "No such file or directory", path)
        if not isinstance(n, DirNode):
            raise NotADirectoryError(errno.ENOTDIR, "Not a directory", path)
        if n.children:
            raise OSError(errno.ENOTEMPTY, "Directory not empty", path)
        del parent.children[name]
        self._log(f"rmdir {path}")
        self._mutated("rmdir", path, None)

    def sys_replace(self, src, dst):
        src = os.path.normpath(_p(src))
        dst = os.path.normpath(_p(dst))
        self._yield("replace")
        self._fault("replace", dst)
        sp, sn = self.parent(src)
        dp, dn = self.parent(dst)
        if sn not in sp.children:
            raise FileNotFoundError(errno.ENOENT, "No such file or directory", src)
        node = sp.children[sn]
        old = dp.children.get(dn)
        if isinstance(old, DirNode) and not isinstance(node, DirNode):
            raise IsADirectoryError(errno.EISDIR, "Is a directory", dst)
        del sp.children[sn]
        dp.children[dn] = node
        for raw in self.open_raws:
            if raw.node is node:
                if raw._w:
                    self.open_writers[raw.name] = self.open_writers.get(raw.name, 1) - 1
                    self.open_writers[dst] = self.open_writers.get(dst, 0) + 1
                raw.name = dst
        self._log(f"replace {src} -> {dst}")
        self._mutated("replace", dst, {"src": src})

    def sys_link(self, src, dst):
        src = os.path.normpath(_p(src))
        dst = os.path.normpath(_p(dst))
        self._yield("link")
        node = self.lookup(src)
        dp, dn = self.parent(dst)
        if dn in dp.children:
            raise FileExistsError(errno.EEXIST, "File exists", dst)
        dp.children[dn] = node
        self._log(f"link {src} -> {dst}")
        self._mutated("link", dst, {"src": src})

    def sys_unlink(self, path):
        path = os.path.normpath(_p(path))
        self._yield("unlink")
        self._fault("unlink", path)
        parent, name = self.parent(path)
        n = parent.children.get(name)
        if n is None:
            raise FileNotFoundError(errno.ENOENT, "No such file or directory", path)
        if isinstance(n, DirNode):
            raise IsADirectoryError(errno.EISDIR, "Is a directory", path)
        del parent.children[name]
        self._log(f"unlink {path}")
        self._mutated("unlink", path, None)

    def sys_stat(self, path):
        if isinstance(path, int):
            raw = self.fds.get(path)
            if raw is None:
                raise OSError(errno.EBADF, "Bad file descriptor")
            n = raw.node
        else:
            self._yield("stat")
            n = self.lookup(path)
        if isinstance(n, DirNode):
            mode = statmod.S_IFDIR | 0o755
            size = 0
            mt = 0
        else:
            mode = statmod.S_IFREG | 0o644
            size = len(n.data)
            mt = int(n.mtime)
        return os.stat_result((mode, id(n) & 0xFFFFFF, 1, 1, 0, 0, size, mt, mt, mt))

    def sys_listdir(self, path):
        self._yield("listdir")
        n = self.lookup(path)
        if not isinstance(n, DirNode):
            raise NotADirectoryError(errno.ENOTDIR, "Not a directory", _p(path))
        return sorted(n.children)


class SimRaw(io.RawIOBase):
    def __init__(self, fs, node, path, readable, writable, append):
        self.fs = fs
        self.node = node
        self.name = path
        self._r = readable
        self._w = writable
        self._append = append
        self.pos = 0
        self.mode = ("rb+" if readable and writable else "wb" if writable else "rb")

    def readable(self):
        return self._r

    def writable(self):
        return self._w

    def seekable(self):
        return True

    def readinto(self, b):
        self.fs._yield("read")
        d = self.node.data[self.pos:self.pos + len(b)]
        b[:len(d)] = d
        self.pos += len(d)
        return len(d)

    def write(self, b):
        b = bytes(b)
        fs = self.fs
        fs._yield("write")
        fs._fault("write", self.name)
        if self._append:
            self.pos = len(self.node.data)
        if fs.short_write is not None and len(b) > 1 and not (fs.sim is not None and fs.sim.in_probe):
            k = fs.short_write(self.name, len(b))
            if k is not None and 0 < k < len(b):
                b = b[:k]          # a legal short write: the caller must write the rest itself
        fs._torn(self, self.pos, b)
        if self.pos > len(self.node.data):
            self.node.data.extend(b"\0" * (self.pos - len(self.node.data)))
        self.node.data[self.pos:self.pos + len(b)] = b
        if fs.sim is not None:
            self.node.mtime = fs.sim.time()
        fs._log(f"write {self.name} @{self.pos} +{len(b)}")
        self.pos += len(b)
        fs._mutated("write", self.name, {"pos": self.pos - len(b), "len": len(b)})
        return len(b)

    def seek(self, off, whence=0):
        if whence == 0:
            self.pos = off
        elif whence == 1:
            self.pos += off
        else:
            self.pos = len(self.node.data) + off
        return self.pos

    def tell(self):
        return self.pos

    def truncate(self, size=None):
        size = self.pos if size is None else size
        if size < len(self.node.data):
            del self.node.data[size:]
        else:
            self.node.data.extend(b"\0" * (size - len(self.node.data)))
        self.fs._log(f"truncate {self.name} {size}")
        self.fs._mutated("truncate", self.name, None)
        return size

    def close(self):
        if not self.closed:
            fs = self.fs
            if self._w:
                fs.open_writers[self.name] = fs.open_writers.get(self.name, 1) - 1
            fs._log(f"close {self.name}")
            try:
                fs.open_raws.remove(self)
            except ValueError:
                pass
            fd = getattr(self, "_own_fd", None)
            if fd is not None:
                fs.fds.pop(fd, None)
            if getattr(self.node, "flock_owner", None) is self:
                self.node.flock_owner = None      # closing a description drops its flock
            if self._w:
                fs._mutated("close", self.name, None)
        super().close()

    def fileno(self):
        fs = self.fs
        for fd, raw in fs.fds.items():
            if raw is self:
                return fd
        fd = fs.next_fd
        fs.next_fd += 1
        fs.fds[fd] = self
        self._own_fd = fd
        return fd

    def isatty(self):
        return False


# ---------------------------------------------------------------------------
# patching
# ---------------------------------------------------------------------------
_installed = False
_real = {}


def _parse_mode(mode):
    m = mode.replace("b", "").replace("t", "")
    plus = "+" in m
    k = m.replace("+", "")
    if k not in ("r", "w", "x", "a"):
        raise ValueError(f"invalid mode: {mode!r}")
    return k, plus


def sim_open(file, mode="r", buffering=-1, encoding=None, errors=None, newline=None,
             closefd=True, opener=None):
    if not virt(file) or FS is None:
        return _real["open"](file, mode, buffering, encoding, errors, newline, closefd, opener)
    fs = FS
    binary = "b" in mode
    k, plus = _parse_mode(mode)
    if opener is not None and not isinstance(file, int):
        flags = {"r": os.O_RDONLY, "w": os.O_WRONLY | os.O_CREAT | os.O_TRUNC,
                 "x": os.O_WRONLY | os.O_CREAT | os.O_EXCL, "a": os.O_WRONLY | os.O_CREAT | os.O_APPEND}[k]
        if plus:
            flags = (flags & ~os.O_ACCMODE) | os.O_RDWR
        file = opener(file, flags)
        closefd = True
        if not (isinstance(file, int) and file >= FD_BASE):
            return _real["open"](file, mode, buffering, encoding, errors, newline, True, None)
    if isinstance(file, int):
        raw = fs.fds.get(file)
        if raw is None:
            raise OSError(errno.EBADF, "Bad file descriptor")
        if closefd:
            del fs.fds[file]
    else:
        raw = fs.sys_open(
            file, mode,
            excl=(k == "x"), trunc=(k == "w"), creat=(k in "wxa"), append=(k == "a"),
            readable=(k == "r" or plus), writable=(k in "wxa" or plus),
        )
    if buffering == 0:
        if not binary:
            raise ValueError("can't have unbuffered text I/O")
        return raw
    bs = fs.bufsize if buffering in (-1, 1) else buffering
    if raw.readable() and raw.writable():
        buf = io.BufferedRandom(raw, bs)
    elif raw.writable():
        buf = io.BufferedWriter(raw, bs)
    else:
        buf = io.BufferedReader(raw, max(bs, 16))
    if binary:
        return buf
    text = io.TextIOWrapper(buf, encoding=encoding or "utf-8", errors=errors, newline=newline,
                            line_buffering=(buffering == 1))
    text.mode = mode
    return text


def _os_open(path, flags, mode=0o777, *, dir_fd=None):
    if not virt(path) or FS is None:
        if dir_fd is None:
            return _real["os.open"](path, flags, mode)
        return _real["os.open"](path, flags, mode, dir_fd=dir_fd)
    fs = FS
    acc = flags & os.O_ACCMODE
    raw = fs.sys_open(
        path, f"os.open({flags:#o})",
        excl=bool(flags & os.O_EXCL), trunc=bool(flags & os.O_TRUNC),
        creat=bool(flags & os.O_CREAT), append=bool(flags & os.O_APPEND),
        readable=acc in (os.O_RDONLY, os.O_RDWR), writable=acc in (os.O_WRONLY, os.O_RDWR),
        allow_dir=True,
    )
    fd = fs.next_fd
    fs.next_fd += 1
    fs.fds[fd] = raw
    return fd


def _fdwrap(name, simfn):
    real = getattr(os, name)
    _real["os." + name] = real

    def w(fd, *a, **k):
        if isinstance(fd, int) and fd >= FD_BASE and FS is not None:
            return simfn(fd, *a, **k)
        return real(fd, *a, **k)
    w.__name__ = name
    setattr(os, name, w)


def _fd_raw(fd):
    raw = FS.fds.get(fd)
    if raw is None:
        raise OSError(errno.EBADF, "Bad file descriptor")
    return raw


def _pathwrap(name, simfn):
    real = getattr(os, name)
    _real["os." + name] = real

    def w(path, *a, **k):
        if FS is not None and virt(path):
            return simfn(path, *a, **k)
        return real(path, *a, **k)
    w.__name__ = name
    setattr(os, name, w)


class _SimDirEntry:
    def __init__(self, dirpath, name, node):
        self.name = name
        self.path = dirpath.rstrip("/") + "/" + name
        self._node = node

    def is_dir(self, follow_symlinks=True):
        return isinstance(self._node, DirNode)

    def is_file(self, follow_symlinks=True):
        return isinstance(self._node, FileNode)

    def is_symlink(self):
        return False

    def stat(self, follow_symlinks=True):
        return FS.sys_stat(self.path)

    def inode(self):
        return id(self._node) & 0xFFFFFF

    def __fspath__(self):
        return self.path


class _ScandirIter:
    def __init__(self, entries):
        self._it = iter(entries)

    def __iter__(self):
        return self

    def __next__(self):
        return next(self._it)

    def close(self):
        pass

    def __enter__(self):
        return self

    def __exit__(self, *a):
        pass


def install():
    """Patch the process once.  Safe to call repeatedly."""
    global _installed
    if _installed:
        return
    _installed = True
    import shutil
    shutil._use_fd_functions = False       # rmtree etc. go through the path-based calls we virtualise
    _real["open"] = builtins.open
    builtins.open = sim_open
    io.open = sim_open
    _real["os.open"] = os.open
    os.open = _os_open

    def s_stat(path, *a, **k):
        return FS.sys_stat(path)
    for nm in ("stat", "lstat"):
        real = getattr(os, nm)
        _real["os." + nm] = real

        def w(path, *a, _real_fn=real, **k):
            if FS is not None and virt(path):
                return FS.sys_stat(path)
            return _real_fn(path, *a, **k)
        w.__name__ = nm
        setattr(os, nm, w)

    _pathwrap("mkdir", lambda path, mode=0o777, **k: FS.sys_mkdir(path))
    _pathwrap("rmdir", lambda path, **k: FS.sys_rmdir(path))
    _pathwrap("unlink", lambda path, **k: FS.sys_unlink(path))
    _pathwrap("remove", lambda path, **k: FS.sys_unlink(path))
    _pathwrap("listdir", lambda path=".": FS.sys_listdir(path))
    _pathwrap("readlink", lambda path, **k: (_ for _ in ()).throw(
        OSError(errno.EINVAL, "Invalid argument", _p(path))))
    _pathwrap("chmod", lambda path, mode, **k: None)
    _pathwrap("utime", lambda path, *a, **k: None)
    _pathwrap("access", lambda path, mode, **k: FS.exists(path))

    def s_scandir(path="."):
        n = FS.lookup(path)
        if not isinstance(n, DirNode):
            raise NotADirectoryError(errno.ENOTDIR, "Not a directory", _p(path))
        FS._yield("scandir")
        return _ScandirIter([_SimDirEntry(_p(path), k, n.children[k]) for k in sorted(n.children)])
    _pathwrap("scandir", s_scandir)

    for nm in ("replace", "rename"):
        real = getattr(os, nm)
        _real["os." + nm] = real

        def w2(src, dst, *a, _real_fn=real, **k):
            if FS is not None and (virt(src) or virt(dst)):
                return FS.sys_replace(src, dst)
            return _real_fn(src, dst, *a, **k)
        w2.__name__ = nm
        setattr(os, nm, w2)

    real_link = os.link
    _real["os.link"] = real_link

    def s_link(src, dst, *a, **k):
        if FS is not None and (virt(src) or virt(dst)):
            return FS.sys_link(src, dst)
        return real_link(src, dst, *a, **k)
    os.link = s_link

    def fd_close(fd):
        raw = FS.fds.pop(fd, None)
        if raw is None:
            raise OSError(errno.EBADF, "Bad file descriptor")
        raw.close()
    _fdwrap("close", fd_close)
    _fdwrap("write", lambda fd, data: _fd_raw(fd).write(data))

    def fd_read(fd, n):
        b = bytearray(n)
        k = _fd_raw(fd).readinto(b)
        return bytes(b[:k])
    _fdwrap("read", fd_read)

    def fd_fsync(fd):
        _fd_raw(fd)
        FS._yield("fsync")
        FS._log(f"fsync {_fd_raw(fd).name}")
    _fdwrap("fsync", fd_fsync)
    _fdwrap("fdatasync", fd_fsync)
    _fdwrap("fstat", lambda fd: FS.sys_stat(fd))
    _fdwrap("lseek", lambda fd, pos, how: _fd_raw(fd).seek(pos, how))
    _fdwrap("ftruncate", lambda fd, n: _fd_raw(fd).truncate(n))
    _fdwrap("fchmod", lambda fd, mode: None)
    _fdwrap("isatty", lambda fd: False)
    _fdwrap("set_inheritable", lambda fd, v: None)
    _fdwrap("get_inheritable", lambda fd: False)

    def fd_fdopen(fd, mode="r", buffering=-1, encoding=None, *a, **k):
        return sim_open(fd, mode, buffering, encoding, *a, **k)
    real_fdopen = os.fdopen
    _real["os.fdopen"] = real_fdopen

    def s_fdopen(fd, *a, **k):
        if isinstance(fd, int) and fd >= FD_BASE and FS is not None:
            return fd_fdopen(fd, *a, **k)
        return real_fdopen(fd, *a, **k)
    os.fdopen = s_fdopen


class _FlockWait:
    """what a task waiting for an advisory lock is blocked on (the scheduler asks .locked())"""

    def __init__(self, node, raw):
        self.node, self.raw = node, raw

    def locked(self):
        o = self.node.flock_owner
        return o is not None and o is not self.raw


def _install_fcntl():
    """advisory locks on simulated descriptors: exclusive only, cooperative waiting under the scheduler"""
    try:
        import fcntl
    except ImportError:
        return
    real_flock, real_lockf = fcntl.flock, fcntl.lockf

    def _fd(fd):
        return fd if isinstance(fd, int) else fd.fileno()

    def sim_lock(fd, op):
        raw = _fd_raw(fd)
        node = raw.node
        if op & fcntl.LOCK_UN:
            if node.flock_owner is raw:
                node.flock_owner = None
            FS._log(f"flock unlock {raw.name}")
            return
        FS._yield("flock")
        while node.flock_owner is not None and node.flock_owner is not raw:
            if op & fcntl.LOCK_NB:
                raise BlockingIOError(errno.EWOULDBLOCK, "Resource temporarily unavailable")
            sim = FS.sim
            if sim is None or not sim.is_task():
                raise OSError(errno.EDEADLK, "simulated flock would block forever")
            sim.block_on(_FlockWait(node, raw))      # not schedulable until the holder lets go
        node.flock_owner = raw
        FS._log(f"flock lock {raw.name}")

    def flock(fd, op):
        f = _fd(fd)
        if isinstance(f, int) and f >= FD_BASE and FS is not None:
            return sim_lock(f, op)
        return real_flock(fd, op)

    def lockf(fd, cmd, *a):
        f = _fd(fd)
        if isinstance(f, int) and f >= FD_BASE and FS is not None:
            return sim_lock(f, cmd)
        return real_lockf(fd, cmd, *a)
    fcntl.flock = flock
    fcntl.lockf = lockf


def mount(fs):
    global FS
    install()
    _install_fcntl_once()
    FS = fs
    return fs


_fcntl_done = False


def _install_fcntl_once():
    global _fcntl_done
    if not _fcntl_done:
        _fcntl_done = True
        _install_fcntl()
