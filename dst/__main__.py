"""python -m dst <property> [--tier quick|thorough] [--seed N] [--runs N] [--jobs N]
                 [--replay FILE] [--wall SECONDS]"""
import argparse
import importlib
import os
import sys

VERIF = os.path.dirname(os.path.dirname(os.path.abspath(__file__)))
if VERIF not in sys.path:
    sys.path.insert(0, VERIF)

WORLDS = {
    "C08": "worlds.c08",
    "C14": "worlds.c14",
    "C15": "worlds.c15",
    "C17": "worlds.c17",
    "C18": "worlds.c18",
    "C19": "worlds.c19",
}


def main():
    ap = argparse.ArgumentParser(prog="dst")
    ap.add_argument("prop")
    ap.add_argument("--tier", default=os.environ.get("VERIF_TIER", "quick"), choices=["quick", "thorough"])
    ap.add_argument("--seed", type=int, default=int(os.environ.get("VERIF_SEED", "20261003")))
    ap.add_argument("--runs", type=int)
    ap.add_argument("--jobs", type=int)
    ap.add_argument("--wall", type=float)
    ap.add_argument("--replay")
    ap.add_argument("--digests")
    ap.add_argument("--no-shrink", action="store_true")
    a = ap.parse_args()
    from dst import runner
    runner.ensure_hashseed()
    if a.prop == "selftest-determinism":
        from dst import selftest
        sys.exit(selftest.determinism(a))
    if a.prop not in WORLDS:
        print(f"unknown property {a.prop}", file=sys.stderr)
        sys.exit(2)
    from dst import env, simexec
    env.bootstrap()
    simexec.install()
    world = importlib.import_module(WORLDS[a.prop])
    if hasattr(world, "prepare"):
        world.prepare(a.tier)
    digests = [int(x) for x in a.digests.split(",")] if a.digests else None
    rc = runner.check(world, a.tier, a.seed, jobs=a.jobs, runs=a.runs, replay_path=a.replay,
                      digests=digests, wall=a.wall, no_shrink=a.no_shrink)
    sys.stdout.flush()
    sys.exit(rc)


if __name__ == "__main__":
    main()
