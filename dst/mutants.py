"""Sensitivity self-test: apply one textual mutation at a time to a scratch copy of
/repo/ofxtools (outside /repo and /verif), run the quick check with VERIF_REPO pointing
at it and require a VIOLATION.  Not registered in MANIFEST (uses a temp directory).

    python -m dst.mutants [PROP ...]
"""
import os
import shutil
import subprocess
import sys
import tempfile

VERIF = os.path.dirname(os.path.dirname(os.path.abspath(__file__)))

# (property, name, file, old, new)
M = [
    # ---- C08
    ("C08", "end-no-name-check", "Parser.py",
     "        if self._open_tags[-1] != tag:\n            raise ParseError(", "        if False:\n            raise ParseError("),
    ("C08", "close-no-open-check", "Parser.py",
     "        if self._open_tags:\n            raise ParseError(f\"Missing end tag(s)", "        if False:\n            raise ParseError(f\"Missing end tag(s)"),
    # (allowing a second root in TreeBuilder.start is an equivalent mutant: the C TreeBuilder itself raises
    #  'multiple elements on top level')
    ("C08", "tail-text-swallowed", "Parser.py",
     "                if tail:\n                    raise ParseError(f\"Tail text", "                if False:\n                    raise ParseError(f\"Tail text"),
    # ---- C14
    ("C14", "post-to-configured-url", "Client.py",
     "            url = urls.pop()\n            logger.info(f\"Received service url", "            url = self.url\n            logger.info(f\"Received service url"),
    ("C14", "class-level-cookiejar", "Client.py",
     "        self.cookiejar = http.cookiejar.CookieJar()", "        self.cookiejar = _SHARED_JAR"),
    ("C14", "dryrun-after-post", "Client.py",
     "        if dryrun:\n            return BytesIO(request)\n\n        if url is None:\n            url = self.url\n",
     "        if url is None:\n            url = self.url\n        if dryrun and not url:\n            return BytesIO(request)\n"),
    ("C14", "profile-with-real-user", "Client.py",
     "        user = password = AUTH_PLACEHOLDER\n        signon = self.signon(password, userid=user)", "        password = AUTH_PLACEHOLDER\n        signon = self.signon(password)"),
    ("C14", "wrong-mime", "Client.py", 'mimetype = "application/x-ofx"', 'mimetype = "application/ofx"'),
    ("C14", "retry-on-error", "Client.py",
     "        response = self.post_request(url, request, timeout)\n        return BytesIO(response)",
     "        try:\n            response = self.post_request(url, request, timeout)\n        except OSError:\n            response = self.post_request(url, request, timeout)\n        return BytesIO(response)"),
    ("C14", "accounts-skip-ignored", "Client.py",
     "        if dryrun:\n            url = \"\"\n        elif skip_profile:\n            url = self.url\n        else:\n            RqCls2url = self._get_service_urls(\n                timeout=timeout,\n                gen_newfileuid=gen_newfileuid,\n            )\n\n            # HACK FIXME\n            # As a simplification, we assume that FIs handle all classes\n            # of statement request from a single URL.\n            urls = set(RqCls2url.values())\n            assert len(urls) == 1\n            url = urls.pop()\n\n        logger.info(\"Creating account info request\")",
     "        if dryrun:\n            url = \"\"\n        else:\n            RqCls2url = self._get_service_urls(\n                timeout=timeout,\n                gen_newfileuid=gen_newfileuid,\n            )\n            urls = set(RqCls2url.values())\n            assert len(urls) == 1\n            url = urls.pop()\n\n        logger.info(\"Creating account info request\")"),
    # ---- C15
    ("C15", "no-date-assert-no-compare", "Client.py",
     "            assert dtprofup is None or dtprofup <= dtprofup_server\n", "            pass\n"),
    ("C15", "no-newer-check", "Client.py",
     "            if dtprofup_cached is not None and dtprofup_cached > dtprofup:", "            if False:"),
    ("C15", "always-1990", "Client.py",
     "        response = self._request_profile(\n            dtprofup=dtprofup,", "        response = self._request_profile(\n            dtprofup=None,"),
    ("C15", "status1-returns-response", "Client.py",
     "            assert profrs is not None\n            response = profrs", "            assert profrs is not None"),
    ("C15", "non-atomic-write", "Client.py",
     "            fd, tmppath = tempfile.mkstemp(\n                dir=str(path.parent), prefix=path.name + \".\", suffix=\".tmp\"\n            )\n            try:\n                with os.fdopen(fd, \"wb\") as f:\n                    f.write(data)\n                os.replace(tmppath, path)",
     "            tmppath = str(path)\n            try:\n                with open(path, \"wb\") as f:\n                    f.write(data)"),
    ("C15", "key-without-url", "Client.py",
     'filename = f"{self.org}-{self.fid}-{urlhash}.profrs"', 'filename = f"{self.org}-{self.fid}.profrs"'),
    ("C15", "key-without-orgfid", "Client.py",
     'filename = f"{self.org}-{self.fid}-{urlhash}.profrs"', 'filename = f"{urlhash}.profrs"'),
    ("C15", "key-org-lowercased", "Client.py",
     'filename = f"{self.org}-{self.fid}-{urlhash}.profrs"', 'filename = f"{str(self.org).lower()}-{self.fid}-{urlhash}.profrs"'),
    ("C15", "no-lock", "Client.py", "        with _PROFILE_CACHE_LOCK:\n            _, dtprofup_cached", "        if True:\n            _, dtprofup_cached"),
    # (equivalent given the newer-check/lock/atomic replace, so not listed: cache written before the status/date checks;
    #  a fixed temp name under the lock; re-raising on an unreadable cache)
    # ---- C17
    ("C17", "groom-no-deepcopy", "models/base.py", "        elem = deepcopy(elem)\n\n        for child in set(elem):", "        for child in set(elem):"),
    ("C17", "shared-treebuilder", "Parser.py",
     "        if parser is None:\n            parser = TreeBuilder()", "        if parser is None:\n            parser = _SHARED_BUILDER"),
    ("C17", "register-drops-zone", "Types.py",
     "        self.unconvert.register(datetime.datetime, self._unconvert_datetime)",
     "        self.unconvert.register(datetime.datetime, lambda v: v.strftime(\"%Y%m%d%H%M%S.000[+0:UTC]\"))"),
    # (needs a switch *between two bytecodes of one source line*: the value is parked in a process-wide list and taken
    #  back in the same expression; line-level pre-emption can never separate the two - only the opcode-level runs can)
    ("C17", "one-line-scratch", "Types.py",
     "        value = saxutils.unescape(value, {\"&nbsp;\": \" \", \"&apos;\": \"'\", \"&quot;\": '\"'})\n        return self.enforce_length(value)",
     "        value = saxutils.unescape(value, {\"&nbsp;\": \" \", \"&apos;\": \"'\", \"&quot;\": '\"'})\n        return (saxutils.__dict__.setdefault(\"_scr\", []).append(self.enforce_length(value)), saxutils._scr.pop(0))[1]"),
    # ---- C18
    ("C18", "defaults-before-user", "scripts/ofxget.py",
     "    merged: ArgsType = ChainMap(_args, user_cfg, DEFAULTS)", "    merged: ArgsType = ChainMap(_args, {k: v for k, v in DEFAULTS.items() if k == 'version'}, user_cfg, DEFAULTS)"),
    ("C18", "ofxhome-before-user", "scripts/ofxget.py",
     "            args.maps.insert(\n                -1,", "            args.maps.insert(\n                1,"),
    ("C18", "persist-password", "scripts/ofxget.py",
     "configurable_user = (\n    \"user\",", "configurable_user = (\n    \"user\",\n    \"password\","),
    ("C18", "write-on-dryrun", "scripts/ofxget.py",
     "    if args[\"dryrun\"]:\n        msg = \"Dry run; won't store password\"\n        warnings.warn(msg, category=SyntaxWarning)\n        return\n\n    mk_server_cfg(args)",
     "    mk_server_cfg(args)"),
    ("C18", "new-clientuid-each-write", "scripts/ofxget.py",
     "    if \"clientuid\" not in defaults:\n        clientuid = OFXClient.uuid", "    if True:\n        clientuid = OFXClient.uuid"),
    ("C18", "list-separator", "scripts/ofxget.py",
     "        return str(value).strip(\"[]\").replace(\"'\", \"\")", "        return \" \".join(value)"),
    ("C18", "no-stale-removal", "scripts/ofxget.py",
     "                USERCFG.remove_option(server, opt)", "                pass"),
    ("C18", "interpolation-on", "scripts/ofxget.py",
     "        kwargs.setdefault(\"interpolation\", None)\n        super().__init__(*args, **kwargs)\n\n\nclass LibraryConfig", "        super().__init__(*args, **kwargs)\n\n\nclass LibraryConfig"),
    ("C18", "init-client-appver-swapped", "scripts/ofxget.py",
     "        appid=args[\"appid\"] or None,\n        appver=args[\"appver\"] or None,", "        appid=args[\"appver\"] or None,\n        appver=args[\"appid\"] or None,"),
    ("C18", "init-client-pretty-dropped", "scripts/ofxget.py",
     "        prettyprint=args[\"pretty\"],", "        prettyprint=None,"),
    ("C18", "nonewfileuid-inverted-in-stmt", "scripts/ofxget.py",
     "        dryrun=args[\"dryrun\"],\n        gen_newfileuid=not args[\"nonewfileuid\"],\n        skip_profile=args[\"skipprofile\"],\n    ) as f:\n        response = f.read()\n\n    print(response.decode())\n\n    if args[\"write\"]:\n        write_config(args)\n\n    if args[\"savepass\"]:\n        save_passwd(args, password)\n\n\ndef request_stmtend",
     "        dryrun=args[\"dryrun\"],\n        gen_newfileuid=True,\n        skip_profile=args[\"skipprofile\"],\n    ) as f:\n        response = f.read()\n\n    print(response.decode())\n\n    if args[\"write\"]:\n        write_config(args)\n\n    if args[\"savepass\"]:\n        save_passwd(args, password)\n\n\ndef request_stmtend"),
    ("C18", "scan-saves-lowest-version", "scripts/ofxget.py",
     "    args[\"version\"] = versions[-1]", "    args[\"version\"] = versions[0]"),
    ("C18", "scan-write-ignores-result", "scripts/ofxget.py",
     "            write_config(ChainMap(extra_args, dict(args)))", "            write_config(ChainMap(dict(args), extra_args))"),
    # ---- C19
    ("C19", "accttype-mapping", "scripts/ofxget.py",
     "                StmtRq(\n                    acctid=acctid,\n                    accttype=accttype.upper(),", "                StmtRq(\n                    acctid=acctid,\n                    accttype=\"CHECKING\" if accttype == \"moneymrkt\" else accttype.upper(),"),
    ("C19", "drop-last-cc", "scripts/ofxget.py",
     "    for acctid in args[\"creditcard\"]:\n        stmtrqs.append(\n            CcStmtRq(", "    for acctid in args[\"creditcard\"][:3]:\n        stmtrqs.append(\n            CcStmtRq("),
    ("C19", "ignore-svcstatus", "scripts/ofxget.py",
     "    return acctinfo.svcstatus == \"ACTIVE\"", "    return acctinfo.svcstatus != \"PEND\""),
    ("C19", "swap-start-end-stmtend", "scripts/ofxget.py",
     "            CcStmtEndRq(acctid=acctid, dtstart=dt[\"start\"], dtend=dt[\"end\"])", "            CcStmtEndRq(acctid=acctid, dtstart=dt[\"end\"], dtend=dt[\"start\"])"),
    ("C19", "asof-ignored", "scripts/ofxget.py",
     "                dtasof=dt[\"asof\"],", "                dtasof=None,"),
    ("C19", "all-keeps-configured", "scripts/ofxget.py",
     "        if accttype not in discovered and args.get(accttype, None):\n            discovered[accttype] = []", "        pass"),
    ("C19", "incbal-ignored", "scripts/ofxget.py",
     "                incbal=args[\"incbal\"],", "                incbal=True,"),
    # a run that should have requested its accounts dies instead (only with more than six requests)
    ("C19", "many-accounts-run-dies", "scripts/ofxget.py",
     "    if not stmtrqs:\n        accttypes = [", "    assert len(stmtrqs) < 7\n    if not stmtrqs:\n        accttypes = ["),
    # ---- later oracles
    ("C14", "tax-request-dies-unsent", "Client.py",
     "        Request US federal income tax form 1099 (TAX1099RQ)\n        \"\"\"\n", "        Request US federal income tax form 1099 (TAX1099RQ)\n        \"\"\"\n        if recid is None and not dryrun:\n            raise ValueError(\"recid\")\n"),
    ("C18", "password-in-backup-file", "scripts/ofxget.py",
     "    with open(USERCONFIGPATH, \"w\") as f:\n        USERCFG.write(f)\n", "    with open(USERCONFIGPATH, \"w\") as f:\n        USERCFG.write(f)\n    with open(str(USERCONFIGPATH) + \".args\", \"w\") as f:\n        f.write(repr(dict(args)))\n"),
    ("C18", "dryrun-leaves-scratch-file", "scripts/ofxget.py",
     "    if args[\"dryrun\"]:\n        msg = \"Dry run; won't store password\"", "    if args[\"dryrun\"]:\n        config.USERCONFIGDIR.mkdir(parents=True, exist_ok=True)\n        open(str(USERCONFIGPATH) + \".dry\", \"w\").write(str(args.get(\"url\")))\n        msg = \"Dry run; won't store password\""),
    ("C18", "one-element-list-unreadable", "scripts/ofxget.py",
     "    return [sub.strip() for sub in string.split(\",\")]", "    first, rest = string.split(\",\", 1)\n    return [first.strip()] + [sub.strip() for sub in rest.split(\",\")]"),
]

EXTRA_SRC = {
    "class-level-cookiejar": ("Client.py", "AUTH_PLACEHOLDER = ", "_SHARED_JAR = http.cookiejar.CookieJar()\nAUTH_PLACEHOLDER = "),
    "shared-treebuilder": ("Parser.py", "def main(*files):", "_SHARED_BUILDER = TreeBuilder()\n\n\ndef main(*files):"),
}


def run_one(prop, name, rel, old, new, keep=False):
    if old is None:
        return None
    tmp = tempfile.mkdtemp(prefix="dst_mut_")
    try:
        shutil.copytree("/repo/ofxtools", os.path.join(tmp, "ofxtools"),
                        ignore=shutil.ignore_patterns("__pycache__"))
        p = os.path.join(tmp, "ofxtools", rel)
        s = open(p).read()
        if old not in s:
            return f"SKIP (pattern not found in {rel})"
        s = s.replace(old, new, 1)
        if name in EXTRA_SRC:
            r2, o2, n2 = EXTRA_SRC[name]
            if r2 == rel:
                s = s.replace(o2, n2, 1)
        open(p, "w").write(s)
        env = dict(os.environ)
        env["VERIF_REPO"] = tmp
        env["PYTHONDONTWRITEBYTECODE"] = "1"
        env["DST_EVIDENCE_DIR"] = os.path.join(tmp, "evidence")
        env["DST_REPLAY_DIR"] = os.path.join(tmp, "replays")
        out = subprocess.run([sys.executable, "-m", "dst", prop, "--tier", "quick", "--no-shrink"], cwd=VERIF, env=env,
                             capture_output=True, text=True, timeout=900)
        lines = [ln for ln in out.stdout.splitlines() if ln.startswith("  C") or "(also)" in ln]
        keys = sorted({ln.strip().replace("(also) ", "").split(":")[0] for ln in lines})
        if out.returncode == 1:
            return "DETECTED " + ", ".join(keys)[:200]
        if out.returncode == 0:
            return "MISSED"
        return f"HARNESS rc={out.returncode} " + out.stderr[-300:].replace("\n", " | ")
    finally:
        shutil.rmtree(tmp, ignore_errors=True)


def main():
    want = set(sys.argv[1:])
    missed = 0
    for prop, name, rel, old, new in M:
        if want and prop not in want and name not in want:
            continue
        r = run_one(prop, name, rel, old, new)
        if r is None:
            continue
        print(f"{prop} {name:32s} {r}", flush=True)
        if not r.startswith("DETECTED"):
            missed += 1
    print(f"missed or skipped: {missed}")
    return 1 if missed else 0


if __name__ == "__main__":
    sys.exit(main())
