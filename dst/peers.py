"""Simulated peers, built on the reference reader/writer only (never on ofxtools):

  SimFI       - a financial institution: profile endpoint, service endpoint, account list,
                cookie minting, a versioned profile with unique markers.
  SimOfxHome  - the OFX Home lookup API.
"""
import datetime
from urllib.parse import urlsplit, parse_qs

from . import refofx
from .simnet import HttpResponse

UTC = datetime.timezone.utc
ANON = "anonymous" + "0" * 23
BASE_DATE = datetime.datetime(2021, 3, 1, 12, 0, 0, tzinfo=UTC)

# profile-answer behaviours
B_SPEC = "spec"            # status 1 if the client's date is current, else the full current profile
B_NEWER = "newer"          # bump the profile, send it in full
B_SAME = "same"            # send the current profile in full whatever date was asked
B_UPTODATE = "uptodate"    # status 1 whatever date was asked
B_OLDER = "older"          # send, in full, a profile older than any sent so far
B_ERROR = "error"          # error status, no PROFRS
B_GARBAGE_NOPROF = "garbage-noprofmsgs"    # valid OFX without PROFMSGSRSV1
B_GARBAGE_NOPROFRS = "garbage-status0-noprofrs"  # status 0 but no PROFRS
B_GARBAGE_TEXT = "garbage-text"            # not OFX at all
B_GARBAGE_NEST = "garbage-misnested"       # PROFRS with an aggregate end tag missing
PROFILE_BEHAVIOURS = [B_SPEC, B_NEWER, B_SAME, B_UPTODATE, B_OLDER, B_ERROR, B_GARBAGE_NOPROF,
                      B_GARBAGE_NOPROFRS, B_GARBAGE_TEXT, B_GARBAGE_NEST]


def url_parts(url):
    u = urlsplit(url)
    port = u.port or (443 if u.scheme == "https" else 80)
    return u.scheme, u.hostname, port, (u.path or "/")


def url_parts_q(url):
    """(scheme, host, port, request-target incl. query)"""
    u = urlsplit(url)
    port = u.port or (443 if u.scheme == "https" else 80)
    return u.scheme, u.hostname, port, (u.path or "/") + (("?" + u.query) if u.query else "")


class Profile:
    def __init__(self, marker, date, svc_url, server, n, date_style=0):
        self.marker = marker
        self.date = date
        self.svc_url = svc_url
        self.server = server
        self.n = n
        self.date_style = date_style

    def fields(self):
        return {"FINAME": self.marker, "DTPROFUP": self.date, "URL": self.svc_url}


def status_doc(code=0, severity="INFO", message=None):
    kids = [("CODE", str(code)), ("SEVERITY", severity)]
    if message:
        kids.append(("MESSAGE", message))
    return ("STATUS", kids)


def sonrs_doc(now, org=None, fid=None, code=0):
    kids = [status_doc(code, "INFO" if code == 0 else "ERROR"),
            ("DTSERVER", refofx.fmt_dt(now)), ("LANGUAGE", "ENG")]
    if org:
        kids.append(("FI", [("ORG", org), ("FID", fid or "0")]))
    return ("SIGNONMSGSRSV1", [("SONRS", kids)])


def msgsetcore(url, ver=1):
    return ("MSGSETCORE", [("VER", str(ver)), ("URL", url), ("OFXSEC", "NONE"), ("TRANSPSEC", "Y"),
                           ("SIGNONREALM", "REALM1"), ("LANGUAGE", "ENG"), ("SYNCMODE", "LITE"),
                           ("RESPFILEER", "Y")])


def _addr_len(n):
    """successive profiles alternate between long and short text, so that a newer profile is often *shorter*
    than the one before it (overlay and stale-tail defects need that)"""
    return max(1, 16 - 3 * (n // 2)) if n % 2 == 0 else 2 + (n // 2)


ALL_MSGSETS = ("SIGNON", "SIGNUP", "BANK", "CC", "INV", "PROF")


def profrs_doc(p, prof_url, trailing=True, msgsets=ALL_MSGSETS, closing=("Y", "Y")):
    svc = p.svc_url
    svc_inv = getattr(p, "inv_url", None) or svc       # an institution may serve investment statements elsewhere
    avail = {
        "SIGNON": ("SIGNONMSGSET", [("SIGNONMSGSETV1", [msgsetcore(prof_url)])]),
        "SIGNUP": ("SIGNUPMSGSET", [("SIGNUPMSGSETV1", [msgsetcore(svc), ("WEBENROLL", [("URL", "https://enroll.invalid/")]),
                                                       ("CHGUSERINFO", "N"), ("AVAILACCTS", "Y"),
                                                       ("CLIENTACTREQ", "N")])]),
        "BANK": ("BANKMSGSET", [("BANKMSGSETV1", [msgsetcore(svc), ("CLOSINGAVAIL", closing[0]),
                                                  ("EMAILPROF", [("CANEMAIL", "N"), ("CANNOTIFY", "N")])])]),
        "CC": ("CREDITCARDMSGSET", [("CREDITCARDMSGSETV1", [msgsetcore(svc), ("CLOSINGAVAIL", closing[1])])]),
        "INV": ("INVSTMTMSGSET", [("INVSTMTMSGSETV1", [msgsetcore(svc_inv), ("TRANDNLD", "Y"), ("OODNLD", "Y"),
                                                       ("POSDNLD", "Y"), ("BALDNLD", "Y"), ("CANEMAIL", "N")])]),
        "PROF": ("PROFMSGSET", [("PROFMSGSETV1", [msgsetcore(prof_url)])]),
    }
    msgsetlist = ("MSGSETLIST", [avail[k] for k in ALL_MSGSETS if k in msgsets])
    signoninfo = ("SIGNONINFOLIST", [("SIGNONINFO", [
        ("SIGNONREALM", "REALM1"), ("MIN", "4"), ("MAX", "32"), ("CHARTYPE", "ALPHAORNUMERIC"),
        ("CASESEN", "Y"), ("SPECIAL", "Y"), ("SPACES", "N"), ("PINCH", "N"), ("CHGPINFIRST", "N"),
        ("CLIENTUIDREQ", "Y" if p.n % 2 else "N")])])
    kids = [msgsetlist, signoninfo, ("DTPROFUP", refofx.fmt_dt(p.date, p.date_style)),
            ("FINAME", p.marker), ("ADDR1", "1 Main St"), ("ADDR2", "Suite " + "7" * _addr_len(p.n)),
            ("CITY", "Montr\u00e9al" if p.n % 3 == 1 else "Springfield"), ("STATE", "NY"),
            ("POSTALCODE", "10001"), ("COUNTRY", "USA")]
    if trailing:
        kids += [("CSPHONE", "555-0100"), ("URL", "https://www.bank.invalid/"),
                 ("EMAIL", "help@bank.invalid")]
    return ("PROFRS", kids)


class SeenRequest:
    """what the FI saw in one HTTP request (reference reader's view)"""
    def __init__(self):
        self.conn = None
        self.path = None
        self.ok = False
        self.error = None
        self.hdr = None
        self.root = None
        self.userid = None
        self.userpass = None
        self.kinds = []          # message-set kinds present
        self.dtprofup = None
        self.trnuids = []
        self.cookie = None
        self.behaviour = None
        self.sent_profile = None
        self.sent_status = None


def decode_ent(s):
    return refofx.decode_entities(s)


class SimFI:
    def __init__(self, sim, net, name, prof_url, svc_url, cookies=False, form="v1u", pretty=False,
                 org=None, fid=None, tenant=None):
        self.sim = sim
        self.name = name
        self.prof_url = prof_url
        self.svc_url = svc_url
        self.cookies = cookies
        self.form = form                 # SGML form for 1xx answers
        self.pretty = pretty
        self.org, self.fid = org, fid
        self.index = 0                   # distinguishes dates between servers
        self.profiles = []               # every profile this server ever generated
        self.current = None
        self.n_older = 0
        self.seen = []                   # SeenRequest list
        self.cookie_n = 0
        self.minted = {}                 # cookie value -> conn id
        self.behaviour_fn = None         # callable(fi, seen) -> behaviour for a PROFRQ
        self.acct_fn = None              # callable(fi, seen) -> ACCTINFORS spec (list) or ('error', code)
        self.stmt_status_fn = None
        self.reject_fn = None            # callable(fi, header, body) -> True to answer HTTP 400
        self.frozen = False              # probe clones do not mutate
        self.trailing = True
        self.msgsets = ALL_MSGSETS
        self.closing = ("Y", "Y")        # CLOSINGAVAIL of the bank / credit-card message sets
        self.cookie_attrs = False
        self.inv_url = None              # set_inv_url(): the INVSTMT message set is advertised at another URL
        # tenant=(org, fid): this institution shares its URLs with others and answers only the requests whose
        # SONRQ names it in <FI><ORG>/<FID>
        self.tenant = tenant
        for url in sorted({prof_url, svc_url}):
            scheme, host, port, target = url_parts_q(url)
            net.register(scheme, host, port, self.handle, target, match=self.claims if tenant else None)

    def set_inv_url(self, net, url):
        self.inv_url = url
        scheme, host, port, target = url_parts_q(url)
        net.register(scheme, host, port, self.handle, target, match=self.claims if self.tenant else None)

    def claims(self, req):
        import re
        body = req.body.decode("latin-1", "replace")
        org = re.search(r"<ORG>([^<\r\n]*)", body)
        fid = re.search(r"<FID>([^<\r\n]*)", body)
        got = (decode_ent(org.group(1).strip()) if org else None, decode_ent(fid.group(1).strip()) if fid else None)
        return got == tuple(self.tenant)

    # -- profile versions -------------------------------------------------------
    def new_profile(self, older=False):
        n = len(self.profiles)
        if older:
            self.n_older += 1
            date = BASE_DATE - datetime.timedelta(days=30 * self.n_older, hours=self.index)
        else:
            k = sum(1 for p in self.profiles if p.n >= 0 and not getattr(p, "is_older", False))
            date = BASE_DATE + datetime.timedelta(days=7 * (k + 1), hours=self.index)
        p = Profile(f"P{n}@{self.name}", date, self.svc_url, self.name, n, date_style=n % 4)
        p.inv_url = self.inv_url
        p.is_older = older
        self.profiles.append(p)
        if not older:
            self.current = p
        return p

    def by_marker(self, marker):
        for p in self.profiles:
            if p.marker == marker:
                return p
        return None

    # -- HTTP entry -------------------------------------------------------------
    def handle(self, conn, req):
        seen = SeenRequest()
        seen.conn = conn
        seen.path = req.target
        seen.cookie = req.header("Cookie")
        self.seen.append(seen)
        try:
            hdr, root = refofx.parse_file_strict(req.body)
            seen.hdr, seen.root = hdr, root
            son = root.find("SIGNONMSGSRQV1/SONRQ")
            if root.tag != "OFX" or son is None:
                raise refofx.RefError("no SONRQ")
            seen.userid = son.get("USERID")
            seen.userpass = son.get("USERPASS")
            seen.kinds = [c.tag for c in root.children if c.tag != "SIGNONMSGSRQV1"]
            seen.ok = True
        except Exception as e:       # reference reader could not read it
            seen.error = f"{type(e).__name__}: {e}"
            return HttpResponse(400, "Bad Request", [("Content-Type", "text/plain")], b"bad request")
        version = hdr["_version"]
        if self.reject_fn is not None and self.reject_fn(self, hdr, req.body):
            seen.rejected = True
            return HttpResponse(400, "Bad Request", [("Content-Type", "text/plain")], b"unsupported OFX version or format")
        now = datetime.datetime.fromtimestamp(self.sim.now_us / 1e6, UTC).replace(microsecond=0)
        msgs = [sonrs_doc(now, self.org, self.fid)]
        raw_override = None
        for c in root.children:
            if c.tag == "PROFMSGSRQV1":
                out = self._profile(seen, c)
                if isinstance(out, bytes):
                    raw_override = out
                elif out is not None:
                    msgs.append(out)
            elif c.tag == "SIGNUPMSGSRQV1":
                msgs.append(self._acctinfo(seen, c, now))
            elif c.tag == "BANKMSGSRQV1":
                msgs.append(self._bank(seen, c, now))
            elif c.tag == "CREDITCARDMSGSRQV1":
                msgs.append(self._cc(seen, c, now))
            elif c.tag == "INVSTMTMSGSRQV1":
                msgs.append(self._inv(seen, c, now))
            elif c.tag == "TAX1099MSGSRQV1":
                msgs.append(self._tax(seen, c))
        headers = [("Content-Type", "application/x-ofx")]
        if self.cookies and not self.frozen:
            self.cookie_n += 1
            val = f"{self.name}-{self.cookie_n}"
            self.minted[val] = conn.id
            seen.set_cookie = val
            attrs = "; Path=/"
            if self.cookie_attrs and conn.scheme == "https":
                attrs += "; Secure; HttpOnly"
            headers.append(("Set-Cookie", f"sid={val}{attrs}"))
        if raw_override is not None:
            body = raw_override
        else:
            body = refofx.render_file(("OFX", msgs), version, self.form, self.pretty)
            if seen.behaviour == B_GARBAGE_NEST:
                # drop one aggregate end tag inside the profile
                body = body.replace(b"</SIGNONINFOLIST>", b"", 1)
        return HttpResponse(200, "OK", headers, body)

    # -- message handlers -------------------------------------------------------
    def _profile(self, seen, msgs):
        trn = msgs.find("PROFTRNRQ")
        trnuid = trn.get("TRNUID", "0") if trn is not None else "0"
        seen.trnuids.append(trnuid)
        dt_txt = trn.get("PROFRQ/DTPROFUP") if trn is not None else None
        try:
            seen.dtprofup = refofx.parse_dt(dt_txt) if dt_txt else None
        except refofx.RefError:
            seen.dtprofup = None
        beh = self.behaviour_fn(self, seen) if self.behaviour_fn is not None else B_SPEC
        seen.behaviour = beh
        if self.current is None and not self.frozen:
            self.new_profile()

        def full(p):
            seen.sent_profile = p
            seen.sent_status = 0
            return ("PROFMSGSRSV1", [("PROFTRNRS", [("TRNUID", trnuid), status_doc(0),
                                                    profrs_doc(p, self.prof_url, self.trailing, self.msgsets, self.closing)])])

        def status_only(code, sev="INFO"):
            seen.sent_status = code
            return ("PROFMSGSRSV1", [("PROFTRNRS", [("TRNUID", trnuid), status_doc(code, sev)])])

        if beh == B_SPEC:
            if seen.dtprofup is not None and seen.dtprofup >= self.current.date:
                return status_only(1)
            return full(self.current)
        if beh == "probe":
            # answers "up to date" to whatever date a client holds, so that the client hands back
            # exactly what its cache contains; a client holding nothing gets the current profile
            if seen.dtprofup is None or seen.dtprofup < datetime.datetime(1990, 1, 2, tzinfo=UTC):
                return full(self.current)
            return status_only(1)
        if beh == B_NEWER:
            return full(self.new_profile())
        if beh in (B_SAME, B_GARBAGE_NEST):
            return full(self.current)
        if beh == B_UPTODATE:
            return status_only(1)
        if beh == B_OLDER:
            return full(self.new_profile(older=True))
        if beh == B_ERROR:
            return status_only(2000, "ERROR")
        if beh == B_GARBAGE_NOPROF:
            return None
        if beh == B_GARBAGE_NOPROFRS:
            return status_only(0)
        if beh == B_GARBAGE_TEXT:
            return b"Internal error: please try again later.\r\n"
        raise AssertionError(beh)

    def _acctinfo(self, seen, msgs, now):
        trn = msgs.find("ACCTINFOTRNRQ")
        trnuid = trn.get("TRNUID", "0") if trn is not None else "0"
        seen.trnuids.append(trnuid)
        spec = self.acct_fn(self, seen) if self.acct_fn is not None else []
        if isinstance(spec, tuple) and spec and spec[0] == "error":
            seen.sent_status = spec[1]
            return ("SIGNUPMSGSRSV1", [("ACCTINFOTRNRS", [("TRNUID", trnuid),
                                                           status_doc(spec[1], "ERROR")])])
        infos = []
        for a in spec:
            kind = a["kind"]
            if kind == "bank":
                inner = ("BANKACCTINFO", [("BANKACCTFROM", [("BANKID", a["bankid"]), ("ACCTID", a["acctid"]),
                                                            ("ACCTTYPE", a["accttype"])]),
                                          ("SUPTXDL", a.get("suptxdl", "Y")), ("XFERSRC", a.get("xfersrc", "N")),
                                          ("XFERDEST", a.get("xferdest", "N")),
                                          ("SVCSTATUS", a["status"])])
            elif kind == "cc":
                inner = ("CCACCTINFO", [("CCACCTFROM", [("ACCTID", a["acctid"])]),
                                        ("SUPTXDL", a.get("suptxdl", "Y")), ("XFERSRC", a.get("xfersrc", "N")),
                                        ("XFERDEST", a.get("xferdest", "N")),
                                        ("SVCSTATUS", a["status"])])
            elif kind == "bp":      # bill-payment listing of a bank account: not a statement account
                inner = ("BPACCTINFO", [("BANKACCTFROM", [("BANKID", a["bankid"]), ("ACCTID", a["acctid"]),
                                                          ("ACCTTYPE", a["accttype"])]),
                                        ("SVCSTATUS", a["status"])])
            else:
                inner = ("INVACCTINFO", [("INVACCTFROM", [("BROKERID", a["brokerid"]), ("ACCTID", a["acctid"])]),
                                         ("USPRODUCTTYPE", a.get("product", "OTHER")), ("CHECKING", a.get("checking", "N")),
                                         ("SVCSTATUS", a["status"])])
            if a.get("group") and infos and not any(k[0] == inner[0] for k in infos[-1][1]):
                infos[-1][1].append(inner)        # *ACCTINFOs of different classes in one ACCTINFO aggregate
                continue
            kids = []
            if a.get("desc"):
                kids.append(("DESC", a["desc"]))
            if a.get("phone"):
                kids.append(("PHONE", a["phone"]))
            kids.append(inner)
            infos.append(("ACCTINFO", kids))
        seen.sent_status = 0
        return ("SIGNUPMSGSRSV1", [("ACCTINFOTRNRS", [("TRNUID", trnuid), status_doc(0),
                                                       ("ACCTINFORS", [("DTACCTUP", refofx.fmt_dt(now))] + infos)])])

    def _stmt_status(self, seen):
        if self.stmt_status_fn is not None:
            return self.stmt_status_fn(self, seen)
        return 0

    def _bank(self, seen, msgs, now):
        out = []
        code = self._stmt_status(seen)
        for trn in msgs.children:
            trnuid = trn.get("TRNUID", "0")
            seen.trnuids.append(trnuid)
            if trn.tag == "STMTTRNRQ":
                acct = trn.find("STMTRQ/BANKACCTFROM")
                rs = [("TRNUID", trnuid), status_doc(code, "INFO" if code == 0 else "ERROR")]
                if code == 0 and acct is not None:
                    rs.append(("STMTRS", [("CURDEF", "USD"), _copy(acct),
                                          ("BANKTRANLIST", [("DTSTART", "20200101"), ("DTEND", "20200201"),
                                                            ("STMTTRN", [("TRNTYPE", "CHECK"), ("DTPOSTED", "20200115"),
                                                                         ("TRNAMT", "-12.50"), ("FITID", "F1")])]),
                                          ("LEDGERBAL", [("BALAMT", "100.00"), ("DTASOF", refofx.fmt_dt(now))])]))
                out.append(("STMTTRNRS", rs))
            elif trn.tag == "STMTENDTRNRQ":
                acct = trn.find("STMTENDRQ/BANKACCTFROM")
                rs = [("TRNUID", trnuid), status_doc(code, "INFO" if code == 0 else "ERROR")]
                if code == 0 and acct is not None:
                    rs.append(("STMTENDRS", [("CURDEF", "USD"), _copy(acct)]))
                out.append(("STMTENDTRNRS", rs))
        return ("BANKMSGSRSV1", out)

    def _cc(self, seen, msgs, now):
        out = []
        code = self._stmt_status(seen)
        for trn in msgs.children:
            trnuid = trn.get("TRNUID", "0")
            seen.trnuids.append(trnuid)
            if trn.tag == "CCSTMTTRNRQ":
                acct = trn.find("CCSTMTRQ/CCACCTFROM")
                rs = [("TRNUID", trnuid), status_doc(code, "INFO" if code == 0 else "ERROR")]
                if code == 0 and acct is not None:
                    rs.append(("CCSTMTRS", [("CURDEF", "USD"), _copy(acct),
                                            ("LEDGERBAL", [("BALAMT", "-40.00"), ("DTASOF", refofx.fmt_dt(now))])]))
                out.append(("CCSTMTTRNRS", rs))
            elif trn.tag == "CCSTMTENDTRNRQ":
                acct = trn.find("CCSTMTENDRQ/CCACCTFROM")
                rs = [("TRNUID", trnuid), status_doc(code, "INFO" if code == 0 else "ERROR")]
                if code == 0 and acct is not None:
                    rs.append(("CCSTMTENDRS", [("CURDEF", "USD"), _copy(acct)]))
                out.append(("CCSTMTENDTRNRS", rs))
        return ("CREDITCARDMSGSRSV1", out)

    def _inv(self, seen, msgs, now):
        out = []
        code = self._stmt_status(seen)
        for trn in msgs.children:
            trnuid = trn.get("TRNUID", "0")
            seen.trnuids.append(trnuid)
            acct = trn.find("INVSTMTRQ/INVACCTFROM")
            rs = [("TRNUID", trnuid), status_doc(code, "INFO" if code == 0 else "ERROR")]
            if code == 0 and acct is not None:
                rs.append(("INVSTMTRS", [("DTASOF", refofx.fmt_dt(now)), ("CURDEF", "USD"), _copy(acct)]))
            out.append(("INVSTMTTRNRS", rs))
        return ("INVSTMTMSGSRSV1", out)

    def _tax(self, seen, msgs):
        out = []
        for trn in msgs.children:
            trnuid = trn.get("TRNUID", "0")
            seen.trnuids.append(trnuid)
            out.append(("TAX1099TRNRS", [("TRNUID", trnuid), status_doc(0)]))
        return ("TAX1099MSGSRSV1", out)

    # -- probe support -----------------------------------------------------------
    def probe_clone(self, net, behaviour):
        """a frozen copy answering profile requests with a fixed behaviour; does not mint
        cookies or new profiles and records what it saw separately"""
        c = object.__new__(SimFI)
        c.__dict__.update(self.__dict__)
        c.seen = []
        c.frozen = True
        c.behaviour_fn = lambda fi, seen: behaviour
        c.acct_fn = None
        c.stmt_status_fn = None
        c.reject_fn = None
        for url in sorted({self.prof_url, self.svc_url} | ({self.inv_url} if self.inv_url else set())):
            scheme, host, port, target = url_parts_q(url)
            net.register(scheme, host, port, c.handle, target, match=c.claims if c.tenant else None)
        return c


def _copy(node):
    if node.text is not None:
        return (node.tag, node.text)
    return (node.tag, [_copy(c) for c in node.children])


class SimOfxHome:
    """http://www.ofxhome.com/api.php?lookup=<id>"""

    def __init__(self, sim, net):
        self.sim = sim
        self.records = {}        # id -> dict(name,fid,org,url,brokerid) ; missing keys = omitted elements
        self.down = False
        self.lookups = []
        net.register("http", "www.ofxhome.com", 80, self.handle)

    def handle(self, conn, req):
        q = parse_qs(urlsplit(req.target).query)
        fid = (q.get("lookup") or [""])[0]
        self.lookups.append((conn.id, req.method, fid))
        rec = self.records.get(fid)
        if rec is None:
            body = b"<html>not found</html>"
            return HttpResponse(200, "OK", [("Content-Type", "text/html")], body)
        parts = [f'<institution id="{fid}">']
        for k in ("name", "fid", "org", "url", "brokerid"):
            if k in rec:
                v = rec[k]
                v = v.replace("&", "&amp;").replace("<", "&lt;").replace(">", "&gt;")
                parts.append(f"<{k}>{v}</{k}>")
        parts.append("<ofxfail>0</ofxfail><sslfail>0</sslfail>")
        parts.append("<lastofxvalidation>2019-04-29 23:08:44</lastofxvalidation>")
        parts.append("<lastsslvalidation>2019-04-29 23:08:43</lastsslvalidation>")
        parts.append("</institution>")
        return HttpResponse(200, "OK", [("Content-Type", "text/xml")], "".join(parts).encode())
