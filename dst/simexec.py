"""SimExecutor: stands in for concurrent.futures.ThreadPoolExecutor / as_completed so that
the real ofxget._queue_scans/_scan_profile code runs its workers as simulated tasks
(baton-passing threads whose interleaving the Chooser decides)."""
import concurrent.futures

from . import sched

_real_TPE = concurrent.futures.ThreadPoolExecutor
_real_as_completed = concurrent.futures.as_completed

MAX_WORKERS_OVERRIDE = None      # worlds set this knob per run
ON_JOB_START = None              # callable(future), runs on the worker task
ON_JOB_DONE = None


class SimFuture:
    def __init__(self, fn, a, k, n):
        self.fn, self.a, self.k = fn, a, k
        self.n = n
        self._done = False
        self._result = None
        self._exc = None
        self.done_ev = None
        self.invoke_ev = None

    def run(self, sim):
        self.invoke_ev = sim.evno
        if ON_JOB_START is not None:
            ON_JOB_START(self)
        try:
            self._result = self.fn(*self.a, **self.k)
        except BaseException as e:      # noqa
            self._exc = e
        self._done = True
        if ON_JOB_DONE is not None:
            ON_JOB_DONE(self)
        self.done_ev = sim.log(f"executor job {self.n} done" + (f" exc={type(self._exc).__name__}" if self._exc else ""))

    def done(self):
        return self._done

    def result(self, timeout=None):
        if not self._done:
            raise RuntimeError("SimFuture not finished (executor not shut down)")
        if self._exc is not None:
            raise self._exc
        return self._result

    def exception(self, timeout=None):
        return self._exc

    def cancel(self):
        return False

    def cancelled(self):
        return False

    def running(self):
        return False

    def add_done_callback(self, fn):
        fn(self)


class SimExecutor:
    def __init__(self, max_workers=None, *a, **k):
        self.max_workers = MAX_WORKERS_OVERRIDE or max_workers or 44
        self.jobs = []
        self.sim = sched.CURRENT

    def submit(self, fn, *a, **k):
        f = SimFuture(fn, a, k, len(self.jobs))
        self.jobs.append(f)
        return f

    def map(self, fn, *iterables, timeout=None, chunksize=1):
        fs = [self.submit(fn, *args) for args in zip(*iterables)]
        self.shutdown()
        return [f.result() for f in fs]

    def shutdown(self, wait=True, cancel_futures=False):
        sim = self.sim
        pending = [f for f in self.jobs if not f.done() and f.invoke_ev is None]
        if not pending:
            return
        if sim is None or sim.is_task():
            for f in pending:          # nested use: run inline
                f.run(sim)
            return
        queue = list(pending)
        sim.count("probe.executor_jobs", len(queue))

        def worker():
            while queue:
                f = queue.pop(0)
                f.run(sim)
        n = min(self.max_workers, len(queue))
        sim.count("probe.executor_workers", n)
        for i in range(n):
            sim.spawn(f"W{i}", worker)
        sim.run_tasks()

    def __enter__(self):
        return self

    def __exit__(self, *a):
        self.shutdown()
        return False


def sim_as_completed(fs, timeout=None):
    fs = list(fs)
    fs.sort(key=lambda f: (f.done_ev if isinstance(f, SimFuture) and f.done_ev is not None else 1 << 60,
                           getattr(f, "n", 0)))
    return iter(fs)


def install():
    concurrent.futures.ThreadPoolExecutor = SimExecutor
    concurrent.futures.as_completed = sim_as_completed
