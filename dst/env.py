"""Process bootstrap: everything that must happen *before* ofxtools is imported.

The code under test is always the working tree named by VERIF_REPO (default /repo).
All seams are process-local monkeypatches of stdlib entry points (or of the two
wrappers ofxtools documents as mockable: OFXClient.dtclient / OFXClient.uuid's
source uuid.uuid4); /repo itself carries no hook.
"""
import datetime
import os
import sys

from . import sched, simfs, simnet

REPO = os.environ.get("VERIF_REPO", "/repo")
_booted = False
TEMP_NAMES = None

XDG = {
    "XDG_CONFIG_HOME": simfs.ROOT + "/cfg",
    "XDG_DATA_HOME": simfs.ROOT + "/data",
    "XDG_CACHE_HOME": simfs.ROOT + "/cache",
    "HOME": simfs.ROOT + "/home",
}


class _SimTime:
    """stand-in for the `time` module inside http.cookiejar"""

    def __init__(self, real):
        self._real = real

    def time(self):
        sim = sched.CURRENT
        if sim is None:
            return self._real.time()
        return sim.time()

    def __getattr__(self, name):
        return getattr(self._real, name)


class IdSource:
    n = 0
    probe_n = 0
    run = 0


def _uuid4():
    import uuid
    sim = sched.CURRENT
    if sim is not None and sim.in_probe:
        IdSource.probe_n += 1
        return uuid.UUID("%08x-0000-4000-9000-%012x" % (IdSource.run & 0xFFFFFFFF, IdSource.probe_n))
    IdSource.n += 1
    return uuid.UUID("%08x-0000-4000-8000-%012x" % (IdSource.run & 0xFFFFFFFF, IdSource.n))


class Entropy:
    """os.urandom / random.SystemRandom / secrets inside a run: a deterministic stream per run (a change under
    test may draw scratch-file names from them; replays must still be exact)"""
    run = 0
    n = 0
    real = os.urandom

    @classmethod
    def urandom(cls, size):
        if sched.CURRENT is None:
            return cls.real(size)
        import hashlib
        out = b""
        while len(out) < size:
            cls.n += 1
            out += hashlib.sha256(b"dst-entropy:%d:%d" % (cls.run, cls.n)).digest()
        return out[:size]


def bootstrap(coop_locks=True):
    global _booted
    if _booted:
        return
    _booted = True
    for k in list(os.environ):
        if k.lower().endswith("_proxy") or k.lower() == "no_proxy":
            del os.environ[k]
    os.environ.update(XDG)
    sys.dont_write_bytecode = True
    if coop_locks:
        sched.install_coop_locks()
    simfs.mount(simfs.SimFS(None))
    simnet.install()
    import uuid
    uuid.uuid4 = _uuid4
    os.getpid = lambda: 4242          # process ids end up in temp-file names; keep runs replayable
    import random as _random
    os.urandom = Entropy.urandom
    _random._urandom = Entropy.urandom
    import time as _time
    import http.cookiejar
    http.cookiejar.time = _SimTime(_time)
    # deterministic temp names for implementations that write through tempfile
    import tempfile

    class _Names:
        def __init__(self):
            self.n = 0

        def __iter__(self):
            return self

        def __next__(self):
            self.n += 1
            return "tmp%06d" % self.n
    global TEMP_NAMES
    TEMP_NAMES = tempfile._name_sequence = _Names()
    tempfile._get_candidate_names = lambda: tempfile._name_sequence
    if REPO not in sys.path[:1]:
        sys.path.insert(0, REPO)
    import logging
    logging.disable(logging.CRITICAL)       # log records are not observations
    import warnings
    warnings.simplefilter("ignore")
    import ofxtools                          # noqa
    assert os.path.realpath(ofxtools.__file__).startswith(os.path.realpath(REPO)), ofxtools.__file__
    import ofxtools.Client as C

    def dtclient(self):
        sim = sched.CURRENT
        if sim is None:
            return datetime.datetime.now(datetime.timezone.utc)
        return datetime.datetime.fromtimestamp(sim.now_us // 1000 / 1000.0, datetime.timezone.utc)
    if hasattr(C.OFXClient, "dtclient"):
        C.OFXClient.dtclient = dtclient


def repo_digest():
    import hashlib
    h = hashlib.sha256()
    base = os.path.join(REPO, "ofxtools")
    for root, dirs, files in sorted(os.walk(base)):
        dirs.sort()
        for f in sorted(files):
            if f.endswith((".py", ".cfg")):
                p = os.path.join(root, f)
                h.update(p[len(base):].encode())
                with open(p, "rb") as fh:
                    h.update(fh.read())
    return h.hexdigest()
