"""W-client: the real OFXClient (and below it urllib / http.client / http.cookiejar /
Parser / models) against simulated financial institutions, disk, clock and scheduler.

This module holds the shared world; the oracles for C15 (profile cache) and C14 (what is
sent where) live in c15.py / c14.py.
"""
import datetime

from dst import sched, simfs, simnet, peers, refofx, simexec
from dst.simnet import F_NONE

UTC = datetime.timezone.utc
ABSENT_MAX = datetime.datetime(1990, 1, 2, tzinfo=UTC)

DATA_DIR = simfs.ROOT + "/data"

# profile URLs of the institutions in play.  Several share a host and differ only in port or query
# string: those are different servers (e.g. a hosting provider multiplexing institutions).
PROF_URLS = [
    "https://ofx.alpha-bank.test/ofx/profile",
    "https://ofx.beta-cu.test/ofx/profile",
    "https://ofx.alpha-bank.test:8443/ofx/profile",
    "https://ofx.alpha-bank.test/ofx/profile?fi=202",
    "https://ofx.gamma-invest.test/ofx/profile",
    "https://OFX.Delta-Trust.TEST:443/OFX/Profile/",       # upper-case host, explicit default port, trailing slash
    "https://ofx.beta-cu.test/OFX/Profile",                # differs from [1] only in the case of the path
    "https://ofx.alpha-bank.test/ofx/profile?FI=202",      # differs from [3] only in the case of the query
]
# (paths and query strings are case-sensitive: [1]/[6] and [3]/[7] are different servers; only host names are not)
V1 = [102, 103, 151, 160]
V2 = [200, 201, 202, 203, 210, 211, 220]


class Ident:
    """one configured client identity"""

    def __init__(self, n, fi, org, fid, version, pretty, close_elements, userid, password,
                 useragent=None, persist_cookies=None):
        self.n = n
        self.fi = fi
        self.url = fi.prof_url
        self.org, self.fid = org, fid
        self.version = version
        self.pretty = pretty
        self.close_elements = close_elements
        self.userid = userid
        self.password = password
        self.useragent = useragent
        self.persist_cookies = persist_cookies
        self.key = f"{org}-{fid}@{self.url}"

    def describe(self):
        return (f"id{self.n}(url={self.url} org={self.org} fid={self.fid} v={self.version}"
                f"{' pretty' if self.pretty else ''}{'' if self.close_elements else ' unclosed'}"
                f" user={self.userid})")


class World:
    def __init__(self, ch, line_prefixes=()):
        self.ch = ch
        self.sim = sched.Sim(ch, line_prefixes=line_prefixes)
        sched.CURRENT = self.sim
        self.fs = simfs.mount(simfs.SimFS(self.sim))
        self.net = simnet.mount(simnet.SimNet(self.sim))
        self.fis = []
        self.idents = []
        self.violations = []
        self.vkeys = set()
        self.timeline = {}        # ident.key -> [(evno, state, why)]
        self.probe_memo = {}
        self.probe_budget = 24
        self.probes_done = 0
        self.probes_skipped = 0
        self.skip_events = []
        self.real_probe_events = []
        self.watch = DATA_DIR
        self.in_mutation_probe = False

    # -- construction ------------------------------------------------------------
    def add_fi(self, i, same_host_svc, cookies, form, pretty, msgsets=None, url_index=None):
        k = i if url_index is None else url_index
        prof = PROF_URLS[k]
        scheme, host, port, target = peers.url_parts_q(prof)
        hp = host if port == 443 else f"{host}:{port}"
        if same_host_svc == 0:
            svc = prof
        elif same_host_svc == 1:
            svc = f"https://{hp}/ofx/service{k}"
        elif same_host_svc == 2:
            svc = f"https://svc{k}.{host.split('.', 1)[1].lower()}:8443/svc"
        else:
            svc = f"http://svc{k}.{host.split('.', 1)[1].lower()}/plain/svc"
        fi = peers.SimFI(self.sim, self.net, "ABCDEFGH"[k], prof, svc, cookies=cookies, form=form,
                         pretty=pretty)
        fi.index = k
        if msgsets is not None:
            fi.msgsets = msgsets
        fi.new_profile()
        self.fis.append(fi)
        return fi

    def add_tenant(self, base, tenant, name, index, same_svc):
        """another institution behind the *same* profile URL as `base` (a processor hosting several): told apart
        only by <FI><ORG>/<FID> of the request"""
        scheme, host, port, target = peers.url_parts_q(base.prof_url)
        svc = base.prof_url if same_svc else f"{scheme}://{host.lower()}:{port}/ofx/tenant-{name}"
        fi = peers.SimFI(self.sim, self.net, name, base.prof_url, svc, cookies=base.cookies, form=base.form,
                         pretty=base.pretty, tenant=tenant)
        fi.index = index
        fi.msgsets = base.msgsets
        fi.new_profile()
        self.fis.append(fi)
        return fi

    def draw_fi_urls(self, n):
        """n distinct indices into PROF_URLS"""
        out = []
        for _ in range(n):
            k = self.ch.pick("fi.url", len(PROF_URLS))
            if out and self.ch.flag("fi.url.near", 0.3):
                # near-collisions on purpose: another server on the host of one already drawn (other port, other
                # query, or the same path/query in another letter case)
                host = peers.url_parts_q(PROF_URLS[out[0]])[1].lower()
                near = [j for j in range(len(PROF_URLS)) if j not in out and peers.url_parts_q(PROF_URLS[j])[1].lower() == host]
                if near:
                    k = near[self.ch.pick("fi.url.near.which", len(near))]
            while k in out:
                k = (k + 1) % len(PROF_URLS)
            out.append(k)
        return out

    def fi_of_marker(self, marker):
        for fi in self.fis:
            p = fi.by_marker(marker)
            if p is not None:
                return fi, p
        return None, None

    def make_client(self, ident, **over):
        from ofxtools.Client import OFXClient
        kw = dict(userid=ident.userid, org=ident.org, fid=ident.fid, version=ident.version,
                  prettyprint=ident.pretty, close_elements=ident.close_elements,
                  bankid="123456789", brokerid="broker.test")
        if ident.useragent is not None:
            kw["useragent"] = ident.useragent
        if ident.persist_cookies is not None:
            kw["persist_cookies"] = ident.persist_cookies
        kw.update(over)
        return OFXClient(ident.url, **kw)

    # -- violations --------------------------------------------------------------
    def violate(self, prop, inv, sub, message, **facts):
        key = f"{prop}/{inv}/{sub}"
        facts["event"] = self.sim.evno
        self.sim.log(f"VIOLATION {key}: {message}")
        if key in self.vkeys:
            return
        self.vkeys.add(key)
        self.violations.append({"key": key, "invariant": inv, "message": message, "facts": facts})

    # -- reading a profile document with the strict reference reader ----------------
    def read_profile_doc(self, data):
        """-> ('profile', marker, date, fi_name) | ('bad', why)"""
        try:
            hdr, root = refofx.parse_file_strict(data)
        except refofx.RefError as e:
            return ("bad", f"not one well-formed whole OFX file: {e}")
        trns = root.findall("PROFMSGSRSV1/PROFTRNRS")
        if root.tag != "OFX" or len(trns) != 1:
            return ("bad", "no single PROFTRNRS")
        rs = trns[0].find("PROFRS")
        if rs is None:
            return ("bad", "no PROFRS")
        marker = rs.get("FINAME")
        fi, p = self.fi_of_marker(marker)
        if p is None:
            return ("bad", f"FINAME {marker!r} is not a profile any server generated")
        try:
            date = refofx.parse_dt(rs.get("DTPROFUP", ""))
        except refofx.RefError as e:
            return ("bad", str(e))
        want = refofx.doc_to_node(peers.profrs_doc(p, fi.prof_url, fi.trailing, fi.msgsets, fi.closing)).dump()
        if rs.dump() != want:
            return ("bad", f"profile {marker} differs from what {fi.name} generated")
        if date != p.date:
            return ("bad", f"profile {marker} date altered")
        return ("profile", marker, p.date, fi.name)

    # -- probes --------------------------------------------------------------------
    def _fs_digest(self, root):
        import hashlib
        h = hashlib.sha256()

        def rec(node, path):
            if isinstance(node, simfs.DirNode):
                for k in sorted(node.children):
                    rec(node.children[k], path + "/" + k)
            else:
                h.update(path.encode())
                h.update(b"\0")
                h.update(bytes(node.data))
                h.update(b"\1")
        rec(root, "")
        return h.hexdigest()

    def probe(self, ident, root=None, behaviour="probe"):
        """Run a restarted client of `ident` on a snapshot of the disk against a frozen copy of
        the servers.  -> state tuple:
            ('absent',)                     the client asked with the 'no profile' date and succeeded
            ('profile', marker, date, fi)   the client holds this whole profile
            ('fail', text)                  the restarted client's request failed
            ('bad', text)                   it returned something that is not one whole profile
        """
        sim = self.sim
        root = root if root is not None else self.fs.root
        memo_key = (self._fs_digest(root), ident.key, ident.version, behaviour,
                    tuple((fi.name, fi.current.marker) for fi in self.fis))
        if memo_key in self.probe_memo:
            sim.count("probe.memo_hits")
            return self.probe_memo[memo_key]
        sim.in_probe += 1
        sim.probe_gen += 1
        saved_universe = sim.lock_universe
        sim.lock_universe = ("probe", sim.probe_gen)
        saved_root = self.fs.root
        saved_servers = self.net.servers
        saved_fds = self.fs.fds
        saved_writers = self.fs.open_writers
        try:
            self.fs.root = root.clone()
            self.fs.fds = {}
            self.fs.open_writers = {}
            self.net.servers = {}
            clones = [fi.probe_clone(self.net, behaviour) for fi in self.fis]
            clone = clones[self.fis.index(ident.fi)]
            client = self.make_client(ident)
            try:
                out = client.request_profile()
                data = out.read()
            except Exception as e:          # noqa - the probe *observes* failures
                state = ("fail", clean_exc(e))
            else:
                asked = [s.dtprofup for s in clone.seen if "PROFMSGSRQV1" in s.kinds]
                doc = self.read_profile_doc(data)
                if not asked:
                    state = ("bad", "restarted client sent no profile request to its configured URL")
                elif doc[0] == "bad":
                    state = doc
                elif asked[-1] is None or asked[-1] < ABSENT_MAX:
                    state = ("absent",)
                    # The date is reported by the code under test itself.  Cross-check on a second copy of
                    # the disk: a server that answers "up to date" whatever it is asked makes the client hand
                    # back whatever it holds.  A client that holds nothing must fail there.
                    self.fs.root = root.clone()
                    self.net.servers = {}
                    clones2 = [fi.probe_clone(self.net, peers.B_UPTODATE) for fi in self.fis]
                    try:
                        data2 = self.make_client(ident).request_profile().read()
                    except Exception:      # noqa - expected when nothing is cached
                        data2 = None
                    if data2 is not None:
                        doc2 = self.read_profile_doc(data2)
                        if doc2[0] == "profile":
                            state = ("bad", f"asks the server with the 'no profile' date although it holds {doc2[1]} "
                                            f"dated {doc2[2].isoformat()} (returned when told 'up to date')")
                else:
                    if doc[2] != asked[-1]:
                        state = ("bad", f"asked with {asked[-1].isoformat()} but holds {doc[1]} dated {doc[2].isoformat()}")
                    else:
                        state = doc
        finally:
            self.fs.root = saved_root
            self.fs.fds = saved_fds
            self.fs.open_writers = saved_writers
            self.net.servers = saved_servers
            sim.lock_universe = saved_universe
            sim.in_probe -= 1
        sim.count("probe.cache_probes")
        self.probe_memo[memo_key] = state
        return state

    def restart_process(self, why):
        """what survives a killed process is the disk (and the servers); everything else starts afresh"""
        sim = self.sim
        sim.restarts += 1
        sim.lock_universe = ("restart", sim.restarts)
        self.fs.drop_process_state()
        sim.count("fault.process.crash-and-restart")
        sim.log(f"CRASH {why}: process killed; a new process starts on what the disk holds")

    def record_state(self, ident, state, why):
        tl = self.timeline.setdefault(ident.key, [])
        if tl and tl[-1][1] == state:
            return
        tl.append((self.sim.evno, state, why))
        self.sim.log(f"cache[{ident.key}] = {state_str(state)} ({why})")

    def probe_all(self, why, root=None, charge=True):
        if charge:
            if self.probes_done >= self.probe_budget:
                self.probes_skipped += 1
                self.skip_events.append(self.sim.evno)
                return None
            self.probes_done += 1
        if root is None:
            self.real_probe_events.append(self.sim.evno)
        out = {}
        for ident in self.idents:
            st = self.probe(ident, root)
            out[ident.key] = st
            if root is None:
                self.record_state(ident, st, why)
        return out


def timeline_exact(world, t_from, t_to):
    """True iff the recorded cache timeline is complete over [t_from, t_to]: no crash-point probe was
    skipped (budget) since the last real probe at or before t_from"""
    p0 = 0
    for e in world.real_probe_events:
        if e <= t_from and e > p0:
            p0 = e
    return not any(p0 < s <= t_to for s in world.skip_events)


def clean_exc(e, n=120):
    import re
    return f"{type(e).__name__}: " + re.sub(r"0x[0-9a-fA-F]+", "0x?", str(e))[:n]


def state_str(st):
    if st[0] == "profile":
        return f"{st[1]} ({st[2].strftime('%Y-%m-%dT%H')})"
    if st[0] == "absent":
        return "absent"
    return f"{st[0]}: {st[1]}"
