"""W-ofxget: sequences of simulated `ofxget` process runs over one durable configuration
file, a generated FI database, a simulated OFX Home and simulated institutions.

A process run = importlib.reload(ofxget) (re-executes the module's own start-up, which
reads fi.cfg and ofxget.cfg), make_argparser().parse_args(argv), merge_config, the
request handler, with stdout captured.  Only SimFS survives between runs.

Two oracles live here: C18 (precedence and persistence of settings) and C19 (which
accounts / dates / flags are requested); c18.py and c19.py select the focus.
"""
import contextlib
import datetime
import importlib
import io
import pathlib

from dst import sched, simfs, simnet, peers, refofx
from dst.simnet import F_NONE, F_REFUSED, F_RESET_AFTER, F_TIMEOUT, F_HTTP500
from .w_client import clean_exc

UTC = datetime.timezone.utc
NICK = "mybank"
NICK2 = "otherbank"        # a nickname that neither the FI database nor the pre-existing user file knows
NICK2_TWIN = "MyBank"      # ... or knows only in another letter case
LIBDIR = simfs.ROOT + "/lib"
CFGFILE = simfs.ROOT + "/cfg/ofxtools/ofxget.cfg"
PASSWORD = "pw-S3CRET-Zq9"

URLS = [
    "https://ofx.alpha-bank.test/cgi/ofx",
    "https://ofx.beta-cu.test/ofx%20srv/a",
    "https://ofx.gamma-invest.test:8443/o?x=1&y=%41",
    "http://ofx.delta.test/plain",
    "https://ofx.epsilon.test/a;b=c/ofx:srv?k=v:1;w=2",
]
SVC = [
    None,                                    # same as profile URL
    "https://svc.alpha-bank.test/stmt",
    "https://svc.beta-cu.test:8443/s%2Fx",
    None,
    "https://svc.epsilon.test/s;t=u",
]
POOL = {
    "url": URLS,
    "ofxhome": ["424", "900", "77"],
    "version": [102, 103, 151, 160, 200, 201, 202, 203, 210, 211, 220],
    "org": ["ORGA", "Org B", "o-c", "A=B:C"],
    "fid": ["1001", "7", "F-9"],
    "appid": ["QWIN", "QBKS", "Money"],
    "appver": ["2700", "1900", "2400"],
    "language": ["ENG", "FRA", "SPA"],
    "bankid": ["111000614", "121000248", "9"],
    "brokerid": ["broker.test", "b2.example.com"],
    "useragent": ["UA/1.0", "Mozilla 5 (x; y)", "InetClntApp/3.0"],
    "user": ["alice", "bob_2", "carol", "d smith", "x=y", "a:b;c", "#hash"],
    "clientuid": ["11111111-2222-4333-8444-555555555555", "AAAAAAAA-BBBB-4CCC-8DDD-EEEEEEEEEEEE"],
}
INI_SPECIAL = {
    "user": ["smith ;joint", ";lead", "a #b", "q= z", "[u]", "50%", "%(x)s", "k: v"],
    "org": ["ACME ;Trust", "A #1", "[ORG]", "100%"],
    "useragent": ["UA/1.0 ;Quicken", "UA #2", "x = y", "[UA]"],
    "fid": ["7 ;a", "F#9", "9 #9"],
}
BOOLS = ["pretty", "unclosedelements", "nonewfileuid", "skipprofile"]
LISTS = ["checking", "savings", "moneymrkt", "creditline", "creditcard", "investment"]
SRVR = ["url", "ofxhome", "version", "pretty", "unclosedelements", "org", "fid", "brokerid", "bankid", "appid",
        "appver", "language", "nonewfileuid", "useragent", "skipprofile"]
USER = ["user", "clientuid"] + LISTS
PERSISTABLE = SRVR + USER
DEFAULTS = {"url": "", "ofxhome": "", "version": 203, "org": "", "fid": "", "appid": "", "appver": "",
            "language": "", "bankid": "", "brokerid": "", "unclosedelements": False, "pretty": False, "user": "",
            "clientuid": "", "checking": [], "savings": [], "moneymrkt": [], "creditline": [], "creditcard": [],
            "investment": [], "nonewfileuid": False, "useragent": "", "skipprofile": False}
ACCT_ALPHA = "ABCXYZabcxyz0123456789-"
CLI_FLAG = {"url": "--url", "ofxhome": "--ofxhome", "version": "--version", "org": "--org", "fid": "--fid",
            "appid": "--appid", "appver": "--appver", "language": "--language", "bankid": "--bankid",
            "brokerid": "--brokerid", "useragent": "--useragent", "user": "--user", "clientuid": "--clientuid",
            "pretty": "--pretty", "unclosedelements": "--unclosedelements", "nonewfileuid": "--nonewfileuid",
            "skipprofile": "--skipprofile", "checking": "-C", "savings": "-S", "moneymrkt": "-M",
            "creditline": "-L", "creditcard": "-c", "investment": "-i"}
# which options each sub-command's parser accepts
CMD_OPTS = {
    "prof": ["url", "ofxhome", "useragent", "skipprofile", "version", "unclosedelements", "pretty", "nonewfileuid",
             "user", "clientuid", "org", "fid", "appid", "appver", "language"],
}
CMD_OPTS["acctinfo"] = CMD_OPTS["prof"]
CMD_OPTS["tax1099"] = CMD_OPTS["prof"]      # (its handler never saves settings, so it is driven without --write)
CMD_OPTS["stmtend"] = CMD_OPTS["prof"] + ["bankid", "checking", "savings", "moneymrkt", "creditline", "creditcard"]
CMD_OPTS["stmt"] = CMD_OPTS["stmtend"] + ["brokerid", "investment"]
BANKTYPES = ["CHECKING", "SAVINGS", "MONEYMRKT", "CREDITLINE"]


def null(v):
    return v is None or v == "" or v == []


def same(a, b):
    if null(a) and null(b):
        return True
    return a == b


def same_accounts(expected, got):
    """account lists are compared as what they mean - which accounts - not as sequences: their order is not the
    property's subject, and an account that occurs k times may be kept k times or fewer (never more often)"""
    if null(expected) and null(got):
        return True
    if not isinstance(expected, list) or not isinstance(got, list):
        return expected == got
    return set(expected) == set(got) and all(got.count(x) <= expected.count(x) for x in set(got))


def cfg_text(v):
    if isinstance(v, bool):
        return "true" if v else "false"
    if isinstance(v, list):
        return ", ".join(v)
    return str(v)


class ProcRun:
    def __init__(self, n, argv, cli, cmd, write, dryrun, all_):
        self.n = n
        self.argv = argv
        self.cli = cli
        self.cmd = cmd
        self.write = write
        self.dryrun = dryrun
        self.all = all_
        self.effective = None       # mapping after merge_config
        self.after = None           # persistable values after the handler ran
        self.ok = None
        self.exc = None
        self.stdout = ""
        self.file_before = None
        self.file_after = None
        self.extra = {}
        self.stage = None


class OfxgetWorld:
    def __init__(self, ch, focus):
        self.ch = ch
        self.focus = focus              # "C18" or "C19"
        self.sim = sched.Sim(ch)
        sched.CURRENT = self.sim
        self.fs = simfs.mount(simfs.SimFS(self.sim))
        self.net = simnet.mount(simnet.SimNet(self.sim))
        self.violations = []
        self.vkeys = set()
        self.runs = []
        self.nontrivial = False
        self.fis = {}
        self.nick = NICK                # nickname of the run being prepared / judged
        # the second nickname has no section anywhere; half the time it is the first one in another letter case
        # (section names are case-sensitive: "MyBank" is not "mybank")
        self.nick2 = [NICK2, NICK2_TWIN][ch.pick("cfg.nick2", 2)]
        self.section_exists = {NICK: True, self.nick2: False}   # fi.cfg always has [mybank]
        self.fidbs = {NICK: {}, self.nick2: {}}
        self.user_models = {NICK: {}, self.nick2: {}}      # what each user section should currently yield
        self.default_clientuid = None
        self.user_default = {}          # non-clientuid options in the user's [DEFAULT] section
        self.home_down = False
        self.fault_next = None
        self.acct_spec = []
        self.acct_error = None
        self.stmt_error = 0
        self.source_stats = {}
        self.unspecified = set()

    @property
    def fidb(self):
        return self.fidbs[self.nick]

    @fidb.setter
    def fidb(self, v):
        self.fidbs[self.nick] = v

    @property
    def user_model(self):
        return self.user_models[self.nick]

    @user_model.setter
    def user_model(self, v):
        self.user_models[self.nick] = v

    def violate(self, prop, inv, sub, message, **facts):
        key = f"{prop}/{inv}/{sub}"
        self.sim.log(f"VIOLATION {key}: {message}")
        if prop != self.focus or key in self.vkeys:
            return
        self.vkeys.add(key)
        facts["event"] = self.sim.evno
        self.violations.append({"key": key, "invariant": inv, "message": message, "facts": facts})

    # -- world construction ---------------------------------------------------------------------
    def draw_value(self, opt, label):
        ch = self.ch
        # coincidences: "is this the default / the value another source already holds?" is where the
        # save-or-skip and precedence logic branches, so values equal to what a lower-ranking source holds are
        # drawn on purpose
        if label in ("cli", "user") and opt not in BOOLS and ch.flag(label + ".coincide", 0.3):
            cands = []
            for src in ((self.user_default, self.user_model, self.fidb) if label == "cli" else (self.fidb,)):
                v = src.get(opt)
                if not null(v):
                    cands.append(v)
            if not null(DEFAULTS.get(opt)):
                cands.append(DEFAULTS[opt])
            if opt == "clientuid" and self.default_clientuid:
                cands.append(self.default_clientuid)
            if cands:
                v = cands[ch.pick(label + ".coincide.which", len(cands))]
                return list(v) if isinstance(v, list) else v
        if opt in BOOLS:
            return bool(ch.pick(label + ".bool", 2))
        if opt in LISTS:
            n = 1 + ch.geometric(label + ".len", 1.8, 29)           # 1..30 accounts, mostly few
            out = []
            for _ in range(n):
                if out and ch.flag(label + ".dup", 0.08):
                    out.append(out[ch.pick(label + ".dupof", len(out))])      # the same account twice
                    continue
                ln = 1 + ch.geometric(label + ".idlen", 4, 21)      # ids up to 22 characters
                if ch.flag(label + ".overlong", 0.05):
                    ln = 23 + ch.pick(label + ".overlong.n", 10)     # longer than the spec's 22: accepted with a warning
                if out and len(out[-1]) >= 22 and ch.flag(label + ".prefix_twin", 0.5):
                    out.append(out[-1][:22] + "-" + str(len(out)))   # shares its first 22 characters with the previous one
                    continue
                # (no leading "-": argparse would take it for an option and the run would end in a usage error)
                aid = "".join(ACCT_ALPHA[ch.pick(label + ".ch", len(ACCT_ALPHA) - (1 if k == 0 else 0))] for k in range(ln))
                if ln >= 3 and ch.flag(label + ".blank", 0.1):
                    k = 1 + ch.pick(label + ".blank.at", ln - 2)     # a formatted number: "0012 345678"
                    aid = aid[:k] + " " + aid[k + 1:]
                out.append(aid)
            return out
        if opt in INI_SPECIAL and ch.flag(label + ".ini_special", 0.12):
            # characters that mean something to INI readers: ';' or '#' after a blank or in front, '=', ':', '[', '%'
            vals = INI_SPECIAL[opt]
            return vals[ch.pick(label + ".ini_special.v", len(vals))]
        pool = POOL[opt]
        if opt == "clientuid" and label == "cli" and self.default_clientuid and ch.flag("cli.clientuid.is_default", 0.35):
            return self.default_clientuid          # exactly the generated default, given explicitly
        return pool[ch.pick(label + "." + opt, len(pool))]

    def setup(self):
        ch = self.ch
        sim = self.sim
        from ofxtools import config
        self.use_real_fidb = ch.flag("cfg.real_fidb", 0.08)
        # institutions behind every URL in the pool
        for i, url in enumerate(URLS):
            svc = SVC[i] if ch.pick("fi.svc", 2) == 0 else None
            fi = peers.SimFI(sim, self.net, "ABGDE"[i], url, svc or url, cookies=bool(ch.pick("fi.cookies", 2)),
                             form=["v1u", "v1c"][ch.pick("fi.form", 2)])
            fi.index = i
            fi.msgsets = ("BANK", "CC", "INV")
            fi.new_profile()
            fi.acct_fn = self.acct_fn
            fi.stmt_status_fn = lambda fi, seen: self.stmt_error
            self.fis[url] = fi
        self.home = peers.SimOfxHome(sim, self.net)
        for k, fid in enumerate(["424", "900", "77"]):
            rec = {"name": f"Bank {fid}"}
            for fld, val in (("url", URLS[(k + 1) % len(URLS)]), ("org", f"HOMEORG{k}"), ("fid", f"55{k}"),
                             ("brokerid", f"home{k}.broker.test")):
                if not ch.flag("home.missing", 0.2):
                    rec[fld] = val
            self.home.records[fid] = rec
            sim.log(f"config OFX Home {fid}: {rec}")
        # FI database
        fidb = {}
        for opt in SRVR:
            if ch.flag("fidb." + opt, 0.3):
                fidb[opt] = self.draw_value(opt, "fidb")
                if opt == "url" and "%" in fidb[opt]:
                    fidb[opt] = URLS[0]        # '%' reaches files only through the program's own --write
        self.fidb = fidb
        lines = ["[NAMES]", "424 = Bank 424", ""]
        if self.use_real_fidb:
            with simfs._real["open"](str(pathlib.Path(config.__file__).parent / "fi.cfg"), "r") as f:
                lines = [f.read()]
        lines.append(f"[{NICK}]")
        for k, v in fidb.items():
            lines.append(f"{k} = {cfg_text(v)}")
        self.fs.write_bytes(LIBDIR + "/fi.cfg", ("\n".join(lines) + "\n").encode())
        sim.log(f"config FI database [{NICK}]: {fidb}")
        # pre-existing user file
        if ch.flag("cfg.userfile", 0.5):
            sec = {}
            for opt in PERSISTABLE:
                if ch.flag("user." + opt, 0.2):
                    sec[opt] = self.draw_value(opt, "user")
                    if opt == "url" and "%" in sec[opt]:
                        sec[opt] = URLS[3]
            txt = []
            dflt = []
            if ch.flag("user.default_clientuid", 0.5):
                self.default_clientuid = "0DEFA017-0000-4000-8000-00000000C11D"
                dflt.append(f"clientuid = {self.default_clientuid}")
            # other options kept under [DEFAULT]: their precedence is not stated by the property, so effective
            # values they could decide are not judged (L1), but saving and re-reading (L2) is
            for opt in ("appver", "appid", "language", "org", "user"):
                if ch.flag("user.default." + opt, 0.2):
                    self.user_default[opt] = self.draw_value(opt, "userdefault")
                    dflt.append(f"{opt} = {cfg_text(self.user_default[opt])}")
            if dflt:
                txt += ["[DEFAULT]"] + dflt + [""]
            txt.append(f"[{NICK}]")
            for k, v in sec.items():
                txt.append(f"{k} = {cfg_text(v)}")
            self.fs.write_bytes(CFGFILE, ("\n".join(txt) + "\n").encode())
            self.user_model = dict(sec)
            sim.log(f"config pre-existing ofxget.cfg [{NICK}]: {sec} default clientuid={self.default_clientuid}")
        self.net.fault_policy = self.fault_policy
        self.net.latency = lambda: 0.01

    def acct_fn(self, fi, seen):
        if self.acct_error:
            return ("error", self.acct_error)
        return self.acct_spec

    def fault_policy(self, conn):
        if conn.host == "www.ofxhome.com":
            if self.home_down:
                self.sim.count("fault.peer.ofxhome-down")
                return (self.home_down, None)
            return (F_NONE, None)
        f = self.fault_next
        if f is not None and f[0] == len([c for c in self.net.conns if c.op == conn.op and c.host != "www.ofxhome.com"]) - 0:
            return (f[1], None)
        return (F_NONE, None)

    # -- reference resolver ------------------------------------------------------------------------
    def resolve(self, cli):
        """first source in rank order that sets the option: CLI > user file > FI db > OFX Home > default"""
        out = {}
        src = {}
        for opt in PERSISTABLE:
            for name, m in (("cli", cli), ("user", self.user_model), ("fidb", self.fidb)):
                if opt in m and not null(m[opt]):
                    out[opt], src[opt] = m[opt], name
                    break
                if opt in m and isinstance(m[opt], bool):
                    out[opt], src[opt] = m[opt], name
                    break
        # (ConfigParser semantics: [DEFAULT] values reach a nickname only once it has a section of its own)
        if "clientuid" not in out and self.default_clientuid and self.section_exists.get(self.nick):
            out["clientuid"], src["clientuid"] = self.default_clientuid, "user-default"
        unspecified = [opt for opt in self.user_default if src.get(opt) not in ("cli", "user")]
        for opt in unspecified:
            # configparser semantics (what the program does today): section values of either file first
            if opt not in out:
                out[opt], src[opt] = self.user_default[opt], "user-default"
        hid = out.get("ofxhome")
        looked = None
        if hid and not self.home_down:
            looked = self.home.records.get(hid)
        if looked:
            for opt in ("url", "org", "fid", "brokerid"):
                if opt not in out and opt in looked:
                    out[opt], src[opt] = looked[opt], "ofxhome"
        for opt in PERSISTABLE:
            if opt not in out:
                out[opt], src[opt] = DEFAULTS[opt], "default"
        self.unspecified = set(unspecified)
        return out, src

    # -- one simulated process run ---------------------------------------------------------------------
    def file_bytes(self):
        try:
            return self.fs.read_bytes(CFGFILE)
        except OSError:
            return None

    def process(self, run):
        from ofxtools import config
        from ofxtools.scripts import ofxget
        sim = self.sim
        self.net.current_op = f"run{run.n}"
        run.file_before = self.file_bytes()
        cfg_before = {k: v for k, v in self.fs.walk_files().items() if k.startswith(simfs.ROOT + "/cfg/")}
        sim.log(f"run{run.n}: ofxget {' '.join(a if a != PASSWORD else '<password>' for a in run.argv)}")
        config.CONFIGDIR = pathlib.Path(LIBDIR)
        out = io.StringIO()
        err = io.StringIO()
        try:
            with contextlib.redirect_stdout(out), contextlib.redirect_stderr(err):
                run.stage = "load"
                importlib.reload(ofxget)
                run.stage = "argv"
                ns = ofxget.make_argparser().parse_args(run.argv)
                run.stage = "merge"
                args = ofxget.merge_config(ns, ofxget.USERCFG)
                run.stage = "handler"
                run.effective = {k: args[k] for k in PERSISTABLE if k in args}
                run.extra = {k: args[k] for k in ("dtstart", "dtend", "dtasof", "inctran", "incbal", "incpos", "incoo",
                                                  "all", "dryrun", "write") if k in args}
                ofxget.REQUEST_HANDLERS[args["request"]](args)
                run.after = {k: args[k] for k in PERSISTABLE if k in args}
            run.ok = True
        except (sched.Deadlock, sched.StepCap):
            raise
        except SystemExit as e:
            run.ok = False
            run.exc = f"SystemExit({e.code})"
        except Exception as e:      # noqa - a failing run is a legal outcome
            run.ok = False
            run.exc = clean_exc(e, 140)
        run.stdout = out.getvalue()
        run.file_after = self.file_bytes()
        cfg_after = {k: v for k, v in self.fs.walk_files().items() if k.startswith(simfs.ROOT + "/cfg/")}
        # (files that are empty afterwards - lock files - store nothing)
        run.cfg_changed = sorted(k for k in set(cfg_before) | set(cfg_after)
                                 if cfg_before.get(k) != cfg_after.get(k) and (cfg_after.get(k) or k == CFGFILE))
        sim.log(f"run{run.n}: " + ("ok" if run.ok else "failed: " + run.exc)
                + (" (config file changed)" if run.file_after != run.file_before else ""))
        self.net.current_op = None
        return run

    def observe(self, n):
        """a later run given only the nickname: what does the durable configuration yield?"""
        from ofxtools import config
        from ofxtools.scripts import ofxget
        self.net.current_op = f"observe{n}"
        config.CONFIGDIR = pathlib.Path(LIBDIR)
        try:
            with contextlib.redirect_stdout(io.StringIO()), contextlib.redirect_stderr(io.StringIO()):
                importlib.reload(ofxget)
                ns = ofxget.make_argparser().parse_args(["stmt", self.nick])
                args = ofxget.merge_config(ns, ofxget.USERCFG)
                return {k: args[k] for k in PERSISTABLE if k in args}, None
        except SystemExit as e:
            return None, f"SystemExit({e.code})"
        except Exception as e:      # noqa
            return None, clean_exc(e, 140)
        finally:
            self.net.current_op = None

    # -- C18 oracle ----------------------------------------------------------------------------------------
    def judge_c18(self, run, expect, src):
        sim = self.sim
        # L3: the password never occurs in the file
        if run.file_after is not None and PASSWORD.encode() in run.file_after:
            self.violate("C18", "L3-password", "stored", f"run{run.n}: the configuration file contains the password")
        else:
            # ... nor in any other file the program leaves behind (backup copies, scratch files, caches)
            for path, data in self.fs.walk_files().items():
                if PASSWORD.encode() in data:
                    self.violate("C18", "L3-password", "stored-elsewhere",
                                 f"run{run.n}: the file {path} contains the password")
                    break
        # L4: a dry run stores nothing
        changed = getattr(run, "cfg_changed", [])
        if run.dryrun and (run.file_after != run.file_before or changed):
            self.violate("C18", "L4-dryrun", "file-changed",
                         f"run{run.n}: a --dryrun run changed {', '.join(changed) or 'ofxget.cfg'}")
        if not run.write and (run.file_after != run.file_before or changed):
            self.violate("C18", "L4-nowrite", "file-changed",
                         f"run{run.n}: a run without --write changed {', '.join(changed) or 'ofxget.cfg'}")
        # L1 (precondition): the settings can be put together at all.  Reading the command line and the files may
        # fail only because no URL is set anywhere
        if run.ok is False and run.stage in ("load", "argv", "merge"):
            if not (run.stage == "merge" and null(expect["url"])):
                self.violate("C18", "L1-precedence", "settings-unusable",
                             f"run{run.n}: no effective settings at all - {run.stage} stage fails with {run.exc} "
                             f"(a URL is set by: {src['url']})", stage=run.stage)
        # L1: effective values
        if run.effective is not None:
            for opt in PERSISTABLE:
                if opt not in run.effective:
                    continue
                if opt in self.unspecified:
                    continue            # decided by the user's [DEFAULT] section: rank not stated by the property
                got = run.effective[opt]
                want = expect[opt]
                self.source_stats[src[opt]] = self.source_stats.get(src[opt], 0) + 1
                if not (same_accounts(want, got) if opt in LISTS else same(got, want)):
                    others = sorted({s for s in ("cli", "user", "fidb") if opt in {"cli": run.cli, "user": self.user_model, "fidb": self.fidb}[s]})
                    self.violate("C18", "L1-precedence", opt if opt not in LISTS else "accounts",
                                 f"run{run.n}: effective {opt}={got!r}, but the highest-ranking source that sets it is "
                                 f"{src[opt]} with {want!r} (sources setting it: {others}; OFX Home {'down' if self.home_down else 'up'})",
                                 option=opt, source=src[opt])
        # L1w: what actually went on the wire reflects the effective values
        if run.ok and not run.dryrun and run.cmd != "scan":
            self.judge_wire(run, expect)
        # L2 / L5: persistence
        if run.ok and run.write and not run.dryrun:
            E = run.after or run.effective
            if (run.cmd == "acctinfo" or run.all) and not self.acct_error and E is not None:
                # what gets saved after an account-information exchange is the accounts the server lists as
                # ACTIVE (server truth), not whatever the program's own merged mapping says
                E = dict(E)
                active = {}
                for a in self.acct_spec:
                    if a["status"] != "ACTIVE" or a["kind"] == "bp":
                        continue
                    key = {"cc": "creditcard", "inv": "investment"}.get(a["kind"]) or a["accttype"].lower()
                    if key in LISTS:
                        active.setdefault(key, []).append(a["acctid"])
                for key in LISTS:
                    if key in active:
                        E[key] = active[key]
                    elif not null(E.get(key)) and key not in run.cli:
                        E[key] = []
                self.sim.count("probe.discovered_accounts_persisted")
            if run.file_after is None:
                self.violate("C18", "L2-persist", "no-file", f"run{run.n}: --write succeeded but no configuration file exists")
                return
            self.section_exists[self.nick] = True
            if self.default_clientuid is None:
                # learn the generated default from the file (the observer below can only show it when the
                # nickname's own section does not override it)
                import re
                mm = re.search(rb"^\[DEFAULT\][^\[]*?^clientuid\s*[=:]\s*(\S+)", run.file_after, re.M | re.S)
                if mm:
                    self.default_clientuid = mm.group(1).decode()
                    sim.log(f"default CLIENTUID created: {self.default_clientuid}")
            obs, err = self.observe(run.n)
            self.sim.count("probe.write_then_read_pairs")
            if obs is None:
                self.violate("C18", "L2-persist", "unreadable",
                             f"run{run.n}: after --write a run given only the nickname fails: {err}")
                return
            for opt in PERSISTABLE:
                if opt not in E or opt not in obs:
                    continue
                if opt == "clientuid" and null(E[opt]):
                    continue
                if not (same_accounts(E[opt], obs[opt]) if opt in LISTS else same(E[opt], obs[opt])):
                    why = "other"
                    if same(E[opt], self.fidb.get(opt, DEFAULTS[opt])):
                        why = "default-after-nondefault"
                    self.violate("C18", "L2-persist", why if opt not in LISTS else "accounts-" + why,
                                 f"run{run.n}: --write saved effective {opt}={E[opt]!r}, but the next run without "
                                 f"command-line options yields {obs[opt]!r}", option=opt)
                    if self.focus == "C18":
                        E = dict(E)
                        E[opt] = obs[opt]       # resync the model: report each stale value once
                        if null(obs[opt]) and not isinstance(obs[opt], bool):
                            self.user_model.pop(opt, None)
                    # (under the C19 focus the model keeps what *should* have been saved, so that a later plain
                    #  run is judged against the accounts the server listed as ACTIVE, not against the stale file)
            # the model of the user section: what it must now yield
            for opt in PERSISTABLE:
                if opt in E and not (opt == "clientuid" and null(E[opt])):
                    if not null(E[opt]) or isinstance(E[opt], bool):
                        self.user_model[opt] = E[opt]
                    else:
                        self.user_model.pop(opt, None)      # next run must yield null: nothing may set it
            # L5: one generated default CLIENTUID across runs
            section_uid = self.user_model.get("clientuid")
            if null(section_uid):
                if self.default_clientuid is None:
                    if null(obs.get("clientuid")):
                        self.violate("C18", "L5-clientuid", "not-created",
                                     f"run{run.n}: after --write no default CLIENTUID is in effect")
                    else:
                        self.default_clientuid = obs["clientuid"]
                        sim.log(f"default CLIENTUID created: {self.default_clientuid}")
                elif obs.get("clientuid") != self.default_clientuid:
                    self.violate("C18", "L5-clientuid", "changed",
                                 f"run{run.n}: default CLIENTUID was {self.default_clientuid}, later run uses {obs.get('clientuid')!r}")
            if self.default_clientuid is not None and self.default_clientuid.encode() not in run.file_after:
                self.violate("C18", "L5-clientuid", "lost",
                             f"run{run.n}: the default CLIENTUID {self.default_clientuid} is no longer in ofxget.cfg")
        elif run.write and not run.dryrun and not run.ok and self.fault_next is None and not self.acct_error:
            # the request itself went through, so the failure is in saving the settings
            mains = [s for fi, s in self.main_requests(run) if s.ok and s.conn.delivered and
                     (run.cmd == "prof" or "PROFMSGSRQV1" not in s.kinds) and
                     not (run.all and "SIGNUPMSGSRQV1" in s.kinds)]
            if mains and run.file_after == run.file_before:
                self.violate("C18", "L2-persist", "write-raises",
                             f"run{run.n}: the request succeeded but saving the settings failed: {run.exc} "
                             f"(url={expect['url']!r})", exc=(run.exc or "").split(":")[0],
                             percent_in_url="%" in str(expect["url"]))
        if not run.ok and run.file_after is not None and run.file_after != run.file_before:
            # a failed run may have written; the file must still be usable
            obs, err = self.observe(run.n)
            keep = self.unspecified
            url_known = not null(self.resolve({})[0]["url"])
            self.unspecified = keep
            if obs is None and url_known:      # (with no URL anywhere it may fail)
                self.violate("C18", "L2-persist", "unreadable-after-failed-run",
                             f"run{run.n} failed ({run.exc}) and left a configuration file on which later runs fail: {err}")

    def main_requests(self, run):
        """SeenRequests (reference view) of the non-profile OFX requests of this run, all servers"""
        out = []
        for url, fi in self.fis.items():
            for s in fi.seen:
                if s.conn.op == f"run{run.n}":
                    out.append((fi, s))
        out.sort(key=lambda x: x[1].conn.id)
        return out

    def judge_wire(self, run, expect):
        reqs = self.main_requests(run)
        if not reqs:
            return
        for fi, s in reqs:
            if not s.ok:
                self.violate("C18", "L1w-wire", "unreadable", f"run{run.n}: server could not read the request: {s.error}")
                continue
            where = f"run{run.n} request to {s.conn.scheme}://{s.conn.host}:{s.conn.port}{s.path}"
            is_prof = "PROFMSGSRQV1" in s.kinds
            son = s.root.find("SIGNONMSGSRQV1/SONRQ")
            if s.hdr["_version"] != expect["version"]:
                self.violate("C18", "L1w-wire", "version", f"{where}: OFX version {s.hdr['_version']}, effective setting {expect['version']}")
            ua = s.conn.request.header("User-Agent")
            if not null(expect["useragent"]) and ua != expect["useragent"]:
                self.violate("C18", "L1w-wire", "useragent", f"{where}: User-Agent {ua!r}, effective setting {expect['useragent']!r}")
            org = son.get("FI/ORG")
            fid = son.get("FI/FID")
            if "org" in self.unspecified:
                pass
            elif not same(org, expect["org"]):
                self.violate("C18", "L1w-wire", "org", f"{where}: FI.ORG {org!r}, effective setting {expect['org']!r}")
            if not null(expect["org"]) and not same(fid, expect["fid"]):
                self.violate("C18", "L1w-wire", "fid", f"{where}: FI.FID {fid!r}, effective setting {expect['fid']!r}")
            for tag, opt, dflt in (("APPID", "appid", "QWIN"), ("APPVER", "appver", "2700"), ("LANGUAGE", "language", "ENG")):
                want = expect[opt] if not null(expect[opt]) else dflt
                if opt in self.unspecified:
                    continue
                if son.get(tag) != want:
                    self.violate("C18", "L1w-wire", opt, f"{where}: {tag} {son.get(tag)!r}, effective setting {want!r}")
            cu = son.get("CLIENTUID")
            if expect["version"] >= 103 and not same(cu, expect["clientuid"]):
                self.violate("C18", "L1w-wire", "clientuid", f"{where}: CLIENTUID {cu!r}, effective setting {expect['clientuid']!r}")
            if not is_prof:
                if "user" not in self.unspecified and not null(expect["user"]) and s.userid != expect["user"]:
                    self.violate("C18", "L1w-wire", "user", f"{where}: USERID {s.userid!r}, effective setting {expect['user']!r}")
            if is_prof and expect["skipprofile"] and run.cmd != "prof":
                self.violate("C18", "L1w-wire", "skipprofile", f"{where}: profile request sent although skipprofile is in effect")
            # format flags, read off the raw body
            try:
                body_txt = refofx.split_file(s.conn.request.body)[1].strip()
            except refofx.RefError:
                body_txt = ""
            if body_txt:
                is_pretty = "\n" in body_txt
                if is_pretty != bool(expect["pretty"]):
                    self.violate("C18", "L1w-wire", "pretty", f"{where}: body is {'pretty-printed' if is_pretty else 'not pretty-printed'}, effective setting pretty={expect['pretty']}")
                if expect["version"] < 200:
                    closed = "</DTCLIENT>" in body_txt
                    if closed == bool(expect["unclosedelements"]):
                        self.violate("C18", "L1w-wire", "unclosedelements", f"{where}: data elements are {'closed' if closed else 'unclosed'}, effective setting unclosedelements={expect['unclosedelements']}")
                nfu = s.hdr.get("NEWFILEUID")
                if (nfu == "NONE") != bool(expect["nonewfileuid"]):
                    self.violate("C18", "L1w-wire", "nonewfileuid", f"{where}: NEWFILEUID={nfu!r}, effective setting nonewfileuid={expect['nonewfileuid']}")
            dest = (s.conn.scheme, s.conn.host.lower(), s.conn.port, s.path)
            if is_prof or expect["skipprofile"]:
                if dest != peers.url_parts_q(expect["url"]):
                    self.violate("C18", "L1w-wire", "url", f"{where}: effective url is {expect['url']!r}")

    # -- C19 oracle ------------------------------------------------------------------------------------------
    def parse_stmt_request(self, root):
        """reference view of a statement request -> sorted list of tuples"""
        out = []

        def dt(node, path):
            t = node.get(path) if node is not None else None
            return refofx.parse_dt(t) if t else None

        def inc(node):
            if node is None:
                return False
            return node.get("INCLUDE") == "Y"
        for trn in root.findall("BANKMSGSRQV1/STMTTRNRQ"):
            rq = trn.find("STMTRQ")
            a = rq.find("BANKACCTFROM")
            it = rq.find("INCTRAN")
            out.append(("STMT", a.get("ACCTTYPE"), a.get("ACCTID"), a.get("BANKID"), dt(it, "DTSTART"), dt(it, "DTEND"), inc(it)))
        for trn in root.findall("BANKMSGSRQV1/STMTENDTRNRQ"):
            rq = trn.find("STMTENDRQ")
            a = rq.find("BANKACCTFROM")
            out.append(("STMTEND", a.get("ACCTTYPE"), a.get("ACCTID"), a.get("BANKID"), dt(rq, "DTSTART"), dt(rq, "DTEND")))
        for trn in root.findall("CREDITCARDMSGSRQV1/CCSTMTTRNRQ"):
            rq = trn.find("CCSTMTRQ")
            it = rq.find("INCTRAN")
            out.append(("CCSTMT", rq.get("CCACCTFROM/ACCTID"), dt(it, "DTSTART"), dt(it, "DTEND"), inc(it)))
        for trn in root.findall("CREDITCARDMSGSRQV1/CCSTMTENDTRNRQ"):
            rq = trn.find("CCSTMTENDRQ")
            out.append(("CCSTMTEND", rq.get("CCACCTFROM/ACCTID"), dt(rq, "DTSTART"), dt(rq, "DTEND")))
        for trn in root.findall("INVSTMTMSGSRQV1/INVSTMTTRNRQ"):
            rq = trn.find("INVSTMTRQ")
            it = rq.find("INCTRAN")
            ip = rq.find("INCPOS")
            out.append(("INVSTMT", rq.get("INVACCTFROM/ACCTID"), rq.get("INVACCTFROM/BROKERID"),
                        dt(it, "DTSTART") if inc(it) else None, dt(it, "DTEND") if inc(it) else None, inc(it),
                        rq.get("INCOO") == "Y", dt(ip, "DTASOF"), inc(ip), rq.get("INCBAL") == "Y"))
        known = {"SIGNONMSGSRQV1", "BANKMSGSRQV1", "CREDITCARDMSGSRQV1", "INVSTMTMSGSRQV1"}
        for c in root.children:
            if c.tag not in known:
                out.append(("OTHER", c.tag))
        return sorted(out, key=repr)

    def expected_stmts(self, run, expect, accounts, bankid, brokerid):
        x = run.extra_expect
        ds, de, da = x["dtstart"], x["dtend"], x["dtasof"]
        out = []
        for t in BANKTYPES:
            for a in accounts.get(t.lower(), []):
                if run.cmd == "stmt":
                    out.append(("STMT", t, a, bankid, ds if x["inctran"] else ds, de, x["inctran"]))
                else:
                    out.append(("STMTEND", t, a, bankid, ds, de))
        for a in accounts.get("creditcard", []):
            if run.cmd == "stmt":
                out.append(("CCSTMT", a, ds, de, x["inctran"]))
            else:
                out.append(("CCSTMTEND", a, ds, de))
        if run.cmd == "stmt":
            for a in accounts.get("investment", []):
                out.append(("INVSTMT", a, brokerid, ds if x["inctran"] else None, de if x["inctran"] else None,
                            x["inctran"], x["incoo"], da, x["incpos"], x["incbal"]))
        return sorted(out, key=repr)

    def judge_c19(self, run, expect):
        if run.cmd not in ("stmt", "stmtend"):
            return
        reqs = self.main_requests(run)
        stmt_reqs = [(fi, s) for fi, s in reqs if s.ok and not ({"PROFMSGSRQV1", "SIGNUPMSGSRQV1"} & set(s.kinds))]
        acct_reqs = [(fi, s) for fi, s in reqs if s.ok and "SIGNUPMSGSRQV1" in s.kinds]
        if run.all:
            active = {}
            bankid = brokerid = None
            for a in self.acct_spec:
                if a["status"] != "ACTIVE" or a["kind"] == "bp":
                    continue
                if a["kind"] == "bank":
                    active.setdefault(a["accttype"].lower(), []).append(a["acctid"])
                    bankid = a["bankid"]
                elif a["kind"] == "cc":
                    active.setdefault("creditcard", []).append(a["acctid"])
                else:
                    active.setdefault("investment", []).append(a["acctid"])
                    brokerid = a["brokerid"]
            accounts = active
            if bankid is None:
                bankid = None if null(expect["bankid"]) else expect["bankid"]
            if brokerid is None:
                brokerid = None if null(expect["brokerid"]) else expect["brokerid"]
            # M4: after a failed account-info step no statement request is sent
            acct_failed = self.acct_error or not any(s.conn.delivered for fi, s in acct_reqs)
            if acct_failed and stmt_reqs:
                self.violate("C19", "M4-after-failed-acctinfo", "statement-sent",
                             f"run{run.n}: the account-information step failed, yet a statement request was sent")
                return
            if acct_failed:
                return
        else:
            accounts = {k: expect[k] for k in LISTS}
            bankid = None if null(expect["bankid"]) else expect["bankid"]
            brokerid = None if null(expect["brokerid"]) else expect["brokerid"]
        want = self.expected_stmts(run, expect, accounts, bankid, brokerid)
        got = None
        if run.dryrun and run.ok:
            try:
                hdr, root = refofx.parse_file_strict(run.stdout.strip().encode())
                got = self.parse_stmt_request(root)
            except Exception as e:      # noqa
                self.violate("C19", "M1-accounts", "dryrun-unreadable",
                             f"run{run.n}: the dry-run output is not a readable OFX request: {clean_exc(e)}")
                return
            if reqs:
                self.violate("C19", "M1-accounts", "dryrun-network", f"run{run.n}: --dryrun contacted an institution")
        elif stmt_reqs:
            if len(stmt_reqs) > 1:
                self.violate("C19", "M1-accounts", "duplicated-request",
                             f"run{run.n}: {len(stmt_reqs)} statement requests were sent for one run")
            got = self.parse_stmt_request(stmt_reqs[0][1].root)
        if got is None:
            if run.ok and not run.dryrun:
                self.violate("C19", "M1-accounts", "nothing-sent", f"run{run.n} succeeded but no statement request reached a server")
            elif not run.ok and not run.all and want and not self.expected_failure(run, expect, accounts, bankid, brokerid, plain=True):
                self.violate("C19", "M1-accounts", "run-fails",
                             f"run{run.n}: {run.cmd} with accounts {accounts} configured fails ({run.exc}) instead of "
                             f"requesting them", exc=(run.exc or "").split(":")[0])
            elif not run.ok and run.all and want and not self.expected_failure(run, expect, accounts, bankid, brokerid):
                self.violate("C19", "M1-accounts", "all-run-fails",
                             f"run{run.n}: --all with ACTIVE accounts {accounts} listed by the server fails ({run.exc}) "
                             f"instead of requesting them", exc=(run.exc or "").split(":")[0])
            return
        self.sim.count("probe.statement_requests_judged")
        if run.all:
            self.sim.count("probe.all_runs_judged")
            # M3: nothing that is not ACTIVE
            inactive = {(a["kind"], a["acctid"]) for a in self.acct_spec if a["status"] != "ACTIVE" and a["kind"] != "bp"}
            for g in got:
                kind = {"STMT": "bank", "STMTEND": "bank", "CCSTMT": "cc", "CCSTMTEND": "cc", "INVSTMT": "inv"}.get(g[0])
                acct = g[2] if kind == "bank" else g[1]
                if (kind, acct) in inactive and not any(
                        a["kind"] == kind and a["acctid"] == acct and a["status"] == "ACTIVE" for a in self.acct_spec):
                    self.violate("C19", "M3-inactive", "requested",
                                 f"run{run.n}: --all requested {g[0]} for account {acct}, which the server lists as not ACTIVE")
        # an account that is configured (or listed as ACTIVE by the server) more than once may be requested once or
        # once per occurrence - never more often, and nothing else may be requested
        same_req = got == want or (set(map(repr, got)) == set(map(repr, want))
                                   and all(got.count(g) <= want.count(g) for g in got))
        if not same_req:
            missing = [w for w in want if w not in got]
            extra = [g for g in got if g not in want]
            sub = "mismatch"
            if run.all and extra and not missing:
                sub = "all-extra-account"
            elif extra and not missing:
                sub = "extra"
            elif missing and not extra:
                sub = "missing"
            # narrower classification when only dates / flags differ
            if len(got) == len(want) and [g[:4 if g[0].startswith('STMT') else 2] for g in got] == [w[:4 if w[0].startswith('STMT') else 2] for w in want]:
                sub = "dates-or-flags"
                inv = "M2-dates-flags"
            else:
                inv = "M1-accounts"
            self.violate("C19", inv, sub,
                         f"run{run.n} ({run.cmd}{' --all' if run.all else ''}): requested {fmt(got)}; expected {fmt(want)}; "
                         f"missing {fmt(missing)}; unexpected {fmt(extra)}", all=run.all)

    def expected_failure(self, run, expect, accounts, bankid, brokerid, plain=False):
        """runs the CLI legitimately refuses"""
        if plain:
            if null(expect["user"]):
                return True
            if any(getattr(s, "rejected", False) for fi, s in self.main_requests(run)):
                return True
        if any(accounts.get(t.lower()) for t in BANKTYPES) and bankid is None:
            return True
        if run.cmd == "stmt" and accounts.get("investment") and brokerid is None:
            return True
        if expect["unclosedelements"] and expect["version"] >= 200:
            return True
        if null(expect["url"]):
            return True
        if self.fault_next is not None or self.stmt_error or self.acct_error:
            return True
        if run.dryrun and not plain:
            return True
        return False


def fmt(items):
    out = []
    for it in items:
        out.append("(" + ", ".join(x.strftime("%Y%m%d%H%M") if isinstance(x, datetime.datetime) else repr(x) for x in it) + ")")
    return "[" + ", ".join(out) + "]"


# ---------------------------------------------------------------------------------------------------
# driver
# ---------------------------------------------------------------------------------------------------
DATES = ["20200101", "20191231235959", "20200315120000.000[-5:EST]", "20210704080000[+2:EET]", "20180228",
         "20200229", "19991231235959.999", "20200315120000[0:GMT]", "20201101013000.000[-8:PST]", "20240630",
         "20240101000000.000[-3.30:NST]", "20240131120000[+5.30:IST]", "20230615083000.000[-9.30:MART]",
         "20220301000000[+12.45]"]


def draw_accounts(world):
    ch = world.ch
    spec = []
    bankid = POOL["bankid"][ch.pick("acct.bankid", 3)]
    brokerid = POOL["brokerid"][ch.pick("acct.brokerid", 2)]
    n = ch.geometric("acct.n", 3, 30)
    for i in range(n):
        kind = ["bank", "cc", "inv", "bp"][ch.weighted("acct.kind", [4, 4, 4, 1])]
        status = ["ACTIVE", "PEND", "AVAIL"][ch.weighted("acct.status", [3, 1, 1])]
        ln = 1 + ch.geometric("acct.idlen", 4, 19)
        if ch.flag("acct.overlong", 0.05):
            ln = 23 + ch.pick("acct.overlong.n", 8)          # longer than the spec's 22 characters
        acctid = "".join(ACCT_ALPHA[ch.pick("acct.ch", len(ACCT_ALPHA))] for _ in range(ln)) + str(i)
        if spec and len(spec[-1]["acctid"]) >= 22 and ch.flag("acct.prefix_twin", 0.5):
            acctid = spec[-1]["acctid"][:22] + "-" + str(i)  # shares its first 22 characters with the previous one
        relisted = None
        if spec and ch.flag("acct.shared_number", 0.1):
            relisted = spec[ch.pick("acct.shared_of", len(spec))]
            acctid = relisted["acctid"]                                       # same number under another type/class
            if not ch.flag("acct.relisted", 0.5):
                relisted = None
        a = {"kind": kind, "acctid": acctid, "status": status}
        if relisted is not None:
            # ... or the very same account listed once more (some institutions list an account once per service),
            # possibly with another status
            a["kind"] = kind = relisted["kind"]
        a["group"] = bool(spec) and ch.flag("acct.same_aggregate", 0.25)      # share the previous ACCTINFO aggregate
        if kind in ("bank", "bp"):
            a["bankid"] = bankid
            a["accttype"] = (BANKTYPES + ["CD"])[ch.weighted("acct.type", [3, 3, 2, 2, 1])]
            if relisted is not None:
                a["accttype"] = relisted["accttype"]
        elif kind == "inv":
            a["brokerid"] = brokerid
        if ch.flag("acct.desc", 0.2):
            a["desc"] = "My account"
        if ch.flag("acct.flags", 0.35):
            # optional capabilities the server reports: none of them decides whether a statement is requested
            a["suptxdl"] = "YN"[ch.pick("acct.suptxdl", 2)]
            a["xfersrc"] = "NY"[ch.pick("acct.xfersrc", 2)]
            a["xferdest"] = "NY"[ch.pick("acct.xferdest", 2)]
            a["checking"] = "NY"[ch.pick("acct.invchecking", 2)]
            a["product"] = ["OTHER", "401K", "IRA", "NORMAL"][ch.pick("acct.product", 4)]
            if ch.flag("acct.phone", 0.3):
                a["phone"] = "+1 555 0100"
        spec.append(a)
    return spec


V1S = [102, 103, 151, 160]
V2S = [200, 201, 202, 203, 210, 211, 220]


def scan_run(world, n):
    """`ofxget scan <nick> [--url ..] --write`: the real 30-job profile scan on the simulated executor, then
    the best working format is saved; the next run must use it."""
    from dst import simexec
    ch = world.ch
    sim = world.sim
    cli = {}
    for opt in ("url", "ofxhome", "useragent"):
        if ch.flag("cli." + opt, 0.3):
            cli[opt] = world.draw_value(opt, "cli")
    write = ch.flag("scan.write", 0.8)
    mode = ch.pick("scan.accepts", 4)
    accepted = {0: V1S + V2S, 1: V1S, 2: [102, 103, 203, 211], 3: []}[mode]
    for fi in world.fis.values():
        fi.reject_fn = lambda fi, hdr, body, acc=accepted: hdr["_version"] not in acc
    simexec.MAX_WORKERS_OVERRIDE = [44, 3, 1, 8][ch.pick("scan.max_workers", 4)]
    world.nick = NICK
    argv = ["scan", NICK]
    for opt, v in cli.items():
        argv += [CLI_FLAG[opt], str(v)]
    if write:
        argv.append("--write")
    world.home_down = None
    world.fault_next = None
    world.acct_error = None
    world.stmt_error = 0
    run = ProcRun(n, argv, cli, "scan", write, False, False)
    run.extra_expect = {}
    expect, src = world.resolve(cli)
    world.runs.append(run)
    sim.log(f"scan: institutions accept OFX versions {accepted}")
    world.process(run)
    for fi in world.fis.values():
        fi.reject_fn = None
    simexec.MAX_WORKERS_OVERRIDE = None
    sim.count("probe.scan_runs")
    v2 = [v for v in accepted if v >= 200]
    best = max(v2) if v2 else (max(accepted) if accepted else None)
    if run.ok and best is not None and run.effective is not None:
        run.after = dict(run.effective)
        run.after["version"] = best      # the scan saves the highest working version; format flags it found
        #                                  unnecessary are simply not written, so the effective ones stay
        world.nontrivial = True
    elif run.ok:
        run.write = False          # nothing worked: nothing is saved
    world.judge_c18(run, expect, src)


def drive(world, tier):
    ch = world.ch
    sim = world.sim
    focus = world.focus
    world.setup()
    n_runs = 2 + ch.pick("n_runs", 5)
    faulty_family = ch.flag("cfg.faults", 0.4)
    for n in range(n_runs):
        if focus == "C18" and ch.flag("run.scan", 0.05 if tier == "quick" else 0.1):
            scan_run(world, n)
            continue
        # most runs are for one server nickname; some for a second one that starts without any section
        # (only when the user's [DEFAULT] section holds nothing but the CLIENTUID: how other [DEFAULT] options
        #  apply to a nickname without a section is not stated by the property)
        world.nick = world.nick2 if (focus == "C18" and not world.user_default and ch.flag("run.other_nick", 0.2)) else NICK
        if focus == "C18":
            cmd = ["stmt", "prof", "stmtend", "acctinfo", "tax1099"][ch.weighted("run.cmd", [12, 4, 2, 2, 1])]
        else:
            cmd = ["stmt", "stmtend"][ch.weighted("run.cmd", [7, 3])]
        cli = {}
        p_opt = 0.18 if focus == "C18" else 0.12
        for opt in CMD_OPTS[cmd]:
            p = p_opt
            if focus == "C19" and opt in LISTS:
                p = 0.4
            if focus == "C19" and opt in ("bankid", "brokerid", "url", "user"):
                p = 0.5
            if focus == "C18" and opt == "clientuid":
                p = 0.35        # the one option with a generated default and a [DEFAULT]-section life of its own
            if ch.flag("cli." + opt, p):
                cli[opt] = True if opt in BOOLS else world.draw_value(opt, "cli")
        if (n == 0 or (world.nick == world.nick2 and null(world.user_model.get("url")))) and "url" not in cli \
                and ch.flag("cli.url.first", 0.7 if world.nick == NICK else 0.95):
            cli["url"] = world.draw_value("url", "cli")
        write = ch.flag("cli.write", 0.45 if focus == "C18" else 0.2)
        dryrun = ch.flag("cli.dryrun", 0.25)
        all_ = cmd in ("stmt", "stmtend") and ch.flag("cli.all", 0.12 if focus == "C18" else 0.4)
        if all_:
            if focus == "C19" and ch.flag("cli.all.write", 0.4):
                write = True             # the discovered accounts get saved; later plain runs must use exactly those
            for opt in LISTS + ["bankid", "brokerid"]:
                cli.pop(opt, None)
            if ch.flag("cli.all.nodry", 0.9):
                dryrun = False
            world.acct_spec = draw_accounts(world)
            sim.log(f"server account list: {[(a['kind'], a.get('accttype'), a['acctid'], a['status']) for a in world.acct_spec]}")
        if cmd == "acctinfo":
            world.acct_spec = draw_accounts(world)
            sim.log(f"server account list: {[(a['kind'], a.get('accttype'), a['acctid'], a['status']) for a in world.acct_spec]}")
        # an account number with a leading "-" (the server may list one) cannot be passed as an option value
        for opt in LISTS:
            if opt in cli:
                cli[opt] = [a for a in cli[opt] if not a.startswith("-")]
                if not cli[opt]:
                    del cli[opt]
        # keep most runs productive: a run that lacks a prerequisite (no URL anywhere, unclosed elements with an
        # OFXv2 version, no user, bank accounts without a bank id) fails before it does anything worth judging, so
        # most of the time - not always - the command line supplies what is missing
        eff, _ = world.resolve(cli)
        if null(eff["url"]) and "url" not in cli and ch.flag("fix.url", 0.85):
            cli["url"] = world.draw_value("url", "cli")
        if eff["unclosedelements"] and eff["version"] >= 200 and ch.flag("fix.version", 0.8):
            cli["version"] = [102, 103, 151, 160][ch.pick("fix.version.v", 4)]
        if cmd != "prof" and null(eff["user"]) and ch.flag("fix.user", 0.85):
            cli["user"] = world.draw_value("user", "cli")
        if cmd in ("stmt", "stmtend") and not all_:
            if null(eff["bankid"]) and any(not null(eff[k]) for k in ("checking", "savings", "moneymrkt", "creditline")) \
                    and ch.flag("fix.bankid", 0.85):
                cli["bankid"] = world.draw_value("bankid", "cli")
            if cmd == "stmt" and null(eff["brokerid"]) and not null(eff["investment"]) and ch.flag("fix.brokerid", 0.85):
                cli["brokerid"] = world.draw_value("brokerid", "cli")
        argv = [cmd, world.nick]
        for opt, v in cli.items():
            if opt in BOOLS:
                argv.append(CLI_FLAG[opt])
            elif opt in LISTS:
                for a in v:
                    argv += [CLI_FLAG[opt], a]
            else:
                argv += [CLI_FLAG[opt], str(v)]
        extra = {"dtstart": None, "dtend": None, "dtasof": None, "inctran": True, "incbal": True, "incpos": True,
                 "incoo": False}
        if cmd in ("stmt", "stmtend"):
            if ch.flag("cli.start", 0.5):
                t = DATES[ch.pick("cli.start.v", len(DATES))]
                argv += ["-s", t]
                extra["dtstart"] = refofx.parse_dt(t)
            if ch.flag("cli.end", 0.4):
                t = DATES[ch.pick("cli.end.v", len(DATES))]
                argv += ["-e", t]
                extra["dtend"] = refofx.parse_dt(t)
        if cmd == "stmt":
            if ch.flag("cli.asof", 0.3):
                t = DATES[ch.pick("cli.asof.v", len(DATES))]
                argv += ["-a", t]
                extra["dtasof"] = refofx.parse_dt(t)
            for flag, key, val in (("--no-transactions", "inctran", False), ("--no-balances", "incbal", False),
                                   ("--no-positions", "incpos", False), ("--open-orders", "incoo", True)):
                if ch.flag("cli." + key, 0.2):
                    argv.append(flag)
                    extra[key] = val
        if cmd == "tax1099":
            write = False
            for y in ["2019", "2020"][:1 + ch.pick("cli.tax.years", 2)]:
                argv += ["-y", y]
            if ch.flag("cli.tax.recid", 0.3):
                argv += ["--recid", "R1"]
        if cmd != "prof":
            argv += ["--password", PASSWORD]
        if write:
            argv.append("--write")
        if dryrun:
            argv.append("--dryrun")
        if all_:
            argv.append("--all")
        # peers / faults for this run
        world.home_down = None
        if ch.flag("home.down", 0.2):
            world.home_down = [F_REFUSED, F_HTTP500][ch.pick("home.down.kind", 2)]
        world.fault_next = None
        world.acct_error = None
        world.stmt_error = 0
        if faulty_family:
            if ch.flag("run.fault", 0.25):
                world.fault_next = (ch.pick("run.fault.at", 3),
                                    [F_REFUSED, F_RESET_AFTER, F_TIMEOUT, F_HTTP500][ch.pick("run.fault.kind", 4)])
                sim.count("fault.net." + world.fault_next[1] + ".planned")
            if all_ and ch.flag("run.acct_error", 0.15):
                world.acct_error = 2000
                sim.count("fault.peer.acctinfo-error-status")
            if ch.flag("run.stmt_error", 0.1):
                world.stmt_error = 2003
                sim.count("fault.peer.statement-error-status")
        run = ProcRun(n, argv, cli, cmd, write, dryrun, all_)
        run.extra_expect = extra
        expect, src = world.resolve(cli)
        world.runs.append(run)
        world.process(run)
        if len([s for s in set(src.values())]) > 2:
            world.nontrivial = True
        world.judge_c18(run, expect, src)
        world.judge_c19(run, expect)
        if ch.flag("run.think", 0.2):
            sim.advance([60.0, 86400.0, 86400.0 * 30][ch.pick("run.think.dt", 3)])


def run_world(ch, index, tier, focus):
    w = OfxgetWorld(ch, focus)
    sim = w.sim
    aborted = None
    try:
        drive(w, tier)
    except sched.Deadlock as e:
        w.violate(focus, "X-deadlock", "tasks", str(e))
        aborted = "deadlock"
    except sched.StepCap as e:
        w.violate(focus, "X-no-progress", "stepcap", str(e))
        aborted = "stepcap"
    stats = dict(sim.stats)
    stats["probe.process_runs"] = len(w.runs)
    stats["probe.runs_ok"] = sum(1 for r in w.runs if r.ok)
    stats["probe.runs_failed_legally_or_not"] = sum(1 for r in w.runs if r.ok is False)
    stats["probe.write_runs"] = sum(1 for r in w.runs if r.write and not r.dryrun)
    stats["probe.dry_runs"] = sum(1 for r in w.runs if r.dryrun)
    stats["probe.all_runs"] = sum(1 for r in w.runs if r.all)
    for r in w.runs:
        stats["probe.cmd." + r.cmd] = stats.get("probe.cmd." + r.cmd, 0) + 1
        if r.ok is False:
            k = "probe.run_failed." + (r.exc or "").split(":")[0].split("(")[0][:40]
            stats[k] = stats.get(k, 0) + 1
        if r.ok and not r.dryrun:
            stats["probe.cmd." + r.cmd + ".sent_ok"] = stats.get("probe.cmd." + r.cmd + ".sent_ok", 0) + 1
    stats["probe.real_fidb_mounted"] = int(w.use_real_fidb)
    for k, v in w.source_stats.items():
        stats["probe.option_resolved_from." + k] = v
    return {
        "violations": w.violations,
        "digest": sim.digest(),
        "sched_digest": None,
        "nontrivial": bool(w.nontrivial or any(r.write or r.all for r in w.runs)),
        "stats": stats,
        "sim_time_s": (sim.now_us - sched.EPOCH_US) / 1e6,
        "decoded": sim.decoded,
        "summary": f"process_runs={len(w.runs)} ok={sum(1 for r in w.runs if r.ok)} aborted={aborted}",
    }
