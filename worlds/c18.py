"""C18 - ofxget settings obey CLI > user file > FI db > OFX Home > defaults, and persist."""
from . import w_ofxget

prop = "C18"
name = "w_ofxget/c18"
level = "exploration"
rule = ("one evaluation = one simulated history of 2-6 ofxget process runs (module reload = process start) over one "
        "durable ofxget.cfg, a generated FI database, a simulated OFX Home (may be down / incomplete) and simulated "
        "institutions; each run draws which sources set which option; non-trivial = a run used --write or --all or "
        "options resolved from more than two kinds of source; distinct = distinct event-log digests")
components = {
    "real": ["ofxtools.scripts.ofxget module start-up (USERCFG/LIBCFG reads), make_argparser, merge_config, "
             "merge_from_ofxhome, read_config, write_config, mk_server_cfg, arg2config, request_* handlers, init_client",
             "ofxtools.ofxhome.lookup/fetch_fi_xml", "configparser, argparse", "everything of W-client below it"],
    "stub": ["config.configure_logging (not called: main() is mirrored step by step)", "getpass (never reached: "
             "--password always given)", "keyring (not installed)", "SimFS, SimNet, SimFI, SimOfxHome, clock, uuid4"],
}
assumptions = [
    "only non-null option values are generated; '%' reaches configuration files only through the program's own --write",
    "crash during the configuration write and disk-full are outside the property's quantifier and not judged",
    "OFX Home is either up with a known id, or down (connection refused / HTTP 500)",
]


def plan(tier):
    if tier == "thorough":
        return dict(runs=30000, wall_budget=1500, per_run_timeout=300, selftest=24, shrink_evals=300, shrink_seconds=120)
    return dict(runs=480, wall_budget=240, per_run_timeout=240, selftest=6, shrink_evals=120, shrink_seconds=45)


def run(ch, index, tier):
    return w_ofxget.run_world(ch, index, tier, "C18")
