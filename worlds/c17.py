"""C17 - parsing, converting and writing are pure, repeatable and safe to run in threads.

W-threads: 1-16 simulated tasks (real threads, one at a time) execute operations of a
corpus under *line-level* pre-emption (sys.settrace on ofxtools/ and functools.py; quantum
lengths drawn per slice), after a drawn history of other operations in the same process.
K1: every input object (source bytes, parsed tree, model instance) dumps identically before
and after each call.  K2: every result equals the baseline computed for that operation in
a pristine forked child with no history and one thread.
"""
import copy
import datetime
import functools
import hashlib
import io
import json
import os

from dst import sched, env, refofx, peers

prop = "C17"
name = "w_threads"
level = "exploration"
rule = ("one evaluation = one simulated run: a drawn history (0-20 operations) followed by 1-16 tasks running 1-3 "
        "operations each under line-level pre-emption with a drawn mean quantum; non-trivial = at least two tasks "
        "interleaved (more switches than tasks) or a non-empty history preceded the judged operations; distinct = "
        "distinct digests of the (task, file:function:line) switch sequence, or of the history for single-task runs")
components = {
    "real": ["ofxtools.header.parse_header", "ofxtools.Parser.OFXTree.parse / TreeBuilder", "Aggregate.from_etree / "
             "to_etree / groom / ungroom", "ofxtools.Types converters (incl. the run-time unconvert.register in "
             "DateTime.normalize_to_gmt)", "OFXClient.serialize (all wire forms)", "functools.singledispatch / "
             "singledispatchmethod", "all model classes reached by the corpus"],
    "stub": ["thread scheduler (baton passing, sys.settrace line events as pre-emption points)"],
}
assumptions = [
    "pre-emption at Python line granularity in ofxtools/ and functools.py; a race needing a switch between two "
    "bytecodes of one line or inside a C function is out of reach",
    "warnings and log records are not results",
    "address-ordered iteration (set(elem) in groom) may shift a pre-emption point by a few lines between a check run "
    "and a replay in a fresh interpreter",
]

UTC = datetime.timezone.utc
BASELINE = {}           # op name -> (digest, short repr)
OPS = []                # (name, fn)
OPS_BY_NAME = {}


def plan(tier):
    if tier == "thorough":
        return dict(runs=18000, wall_budget=1500, per_run_timeout=300, selftest=16, shrink_evals=200, shrink_seconds=120)
    return dict(runs=304, wall_budget=240, per_run_timeout=240, selftest=4, shrink_evals=80, shrink_seconds=40)


class K1(Exception):
    pass


class K2(Exception):
    """repetition inside one operation gave a different result"""


# ---------------------------------------------------------------------------
# canonical dumps
# ---------------------------------------------------------------------------
def dump_tree(e):
    return [e.tag, e.text, e.tail, sorted(e.attrib.items()), [dump_tree(c) for c in e]]


def dump_value(v):
    import decimal
    if isinstance(v, datetime.datetime):
        return "dt:" + v.astimezone(UTC).isoformat() if v.tzinfo else "naive:" + v.isoformat()
    if isinstance(v, datetime.time):
        return "time:" + v.isoformat()
    if isinstance(v, decimal.Decimal):
        return "dec:" + repr(v)
    if isinstance(v, (str, int, bool, float)) or v is None:
        return repr(v)
    if isinstance(v, (list, tuple)) and not hasattr(v, "spec"):
        return [dump_value(x) for x in v]
    return dump_model(v)


def dump_model(m):
    out = [type(m).__name__]
    attrs = []
    for k in sorted(vars(m)):
        attrs.append([k, dump_value(vars(m)[k])])
    out.append(attrs)
    if isinstance(m, list):
        out.append([dump_value(x) for x in m])
    return out


def digest(obj):
    return hashlib.sha256(json.dumps(obj, sort_keys=True, default=repr).encode()).hexdigest()[:20]


# ---------------------------------------------------------------------------
# corpus
# ---------------------------------------------------------------------------
NOW = datetime.datetime(2024, 5, 1, 12, 0, 0, tzinfo=UTC)


def _docs():
    from worlds import c08
    from dst.chooser import Chooser
    docs = {}

    class Fixed:
        def __init__(self, vals):
            self.vals = vals

        def pick(self, label, n):
            return min(self.vals.get(label, 0), n - 1)
    docs["stmt"] = c08.realistic(Fixed({"d.kind": 0, "d.ntrn": 2}))
    docs["profile"] = c08.realistic(Fixed({"d.kind": 1, "d.msgsets": 1}))
    docs["acctinfo"] = c08.realistic(Fixed({"d.kind": 3, "d.nacct": 1}))
    inv = c08.realistic(Fixed({"d.kind": 2}))
    # STOCKINFO with YIELD (renamed to yld on the way in and back on the way out) and an MFINFO
    seclist = inv[1][-1][1][0]
    seclist[1][0][1].append(("YIELD", "1.25"))
    seclist[1].append(("MFINFO", [("SECINFO", [("SECID", [("UNIQUEID", "999999999"), ("UNIQUEIDTYPE", "CUSIP")]),
                                               ("SECNAME", "FUND")]), ("MFTYPE", "OPENEND"), ("YIELD", "2.5")]))
    docs["invest"] = inv
    # vendor extensions and unknown tags (groom paths), every date-time notation
    ext = ("OFX", [("SIGNONMSGSRSV1", [("SONRS", [
        ("STATUS", [("CODE", "0"), ("SEVERITY", "INFO"), ("MESSAGE", "a &amp; b")]),
        ("DTSERVER", "20200102030405.678[-5:EST]"), ("LANGUAGE", "ENG"), ("DTPROFUP", "20190101"),
        ("DTACCTUP", "20190102120000"), ("FI", [("ORG", "O"), ("FID", "1")]),
        ("INTU.BID", "123"), ("INTU.USERID", "u"), ("FOO.BAR", [("X", "1")])])]),
        ("BANKMSGSRSV1", [("STMTTRNRS", [("TRNUID", "1"), peers.status_doc(0), ("STMTRS", [
            ("CURDEF", "USD"), ("BANKACCTFROM", [("BANKID", "1"), ("ACCTID", "2"), ("ACCTTYPE", "SAVINGS")]),
            ("BANKTRANLIST", [("DTSTART", "20200101"), ("DTEND", "20200201120000.000"),
                              ("STMTTRN", [("TRNTYPE", "DEBIT"), ("DTPOSTED", "20200115080000[+5.30:IST]"),
                                           ("DTUSER", "20200115[-8:PST]"), ("TRNAMT", "-1,50"), ("FITID", "A"),
                                           ("NAME", "x &lt; y"), ("INTU.EXTRA", "1")])]),
            ("LEDGERBAL", [("BALAMT", "5"), ("DTASOF", "20200201000000.000[0:GMT]")])])])])])
    docs["ext"] = ext
    bad_enum = ("OFX", [("SIGNONMSGSRSV1", [("SONRS", [("STATUS", [("CODE", "0"), ("SEVERITY", "BOGUS")]),
                                                       ("DTSERVER", "20200101"), ("LANGUAGE", "ENG")])])])
    docs["bad_enum"] = bad_enum
    missing = ("OFX", [("SIGNONMSGSRSV1", [("SONRS", [("STATUS", [("SEVERITY", "INFO")]),
                                                      ("DTSERVER", "20200101"), ("LANGUAGE", "ENG")])])])
    docs["missing_required"] = missing
    order = ("OFX", [("SIGNONMSGSRSV1", [("SONRS", [("DTSERVER", "20200101"),
                                                    ("STATUS", [("CODE", "0"), ("SEVERITY", "INFO")]),
                                                    ("LANGUAGE", "ENG")])])])
    docs["out_of_order"] = order
    return docs


def _file(doc, version, form, pretty):
    return refofx.render_file(doc, version, form, pretty)


def op_pipeline(data, serialize_kw, repeat=False):
    """parse -> convert -> to_etree -> tostring -> serialize, with K1 checks at every stage; with `repeat` every
    stage is run a second time on the same object and must give an equal result"""
    def fn():
        from ofxtools.Parser import OFXTree
        from ofxtools.Client import OFXClient
        import xml.etree.ElementTree as ET
        src = io.BytesIO(data)
        t = OFXTree()
        root = t.parse(src)
        if src.closed:
            raise K1("the caller's stream was closed by parse")
        if src.getvalue() != data:
            raise K1("source bytes changed by parse")
        # the same stream object, rewound, parses to the same tree again
        src.seek(0)
        try:
            again = OFXTree().parse(src)
        except (sched.Deadlock, sched.StepCap):
            raise
        except Exception as e:      # noqa - the first parse succeeded, so this one must too
            raise K2(f"parsing the same (rewound) stream a second time raises {type(e).__name__} "
                     f"although the first parse succeeded")
        if dump_tree(again) != dump_tree(root):
            raise K2("parsing the same (rewound) stream a second time gives a different tree")
        before = dump_tree(root)
        inst = t.convert()
        if dump_tree(root) != before:
            raise K1("parsed element tree changed by convert()")
        mbefore = dump_model(inst)
        out = inst.to_etree()
        if dump_model(inst) != mbefore:
            raise K1("model instance changed by to_etree()")
        obefore = dump_tree(out)
        txt = ET.tostring(out).decode()
        ser = OFXClient("https://x.test/", version=serialize_kw.get("version", 203)).serialize(inst, **serialize_kw)
        if repeat:
            try:
                if dump_model(t.convert()) != mbefore:
                    raise K2("converting the same parsed tree a second time gives a different model")
                if dump_tree(inst.to_etree()) != obefore:
                    raise K2("writing the same model instance a second time gives a different tree")
                if ET.tostring(out).decode() != txt:
                    raise K2("tostring() of the same tree a second time gives different text")
                if OFXClient("https://x.test/", version=serialize_kw.get("version", 203)).serialize(inst, **serialize_kw) != ser:
                    raise K2("serializing the same model instance a second time gives different bytes")
            except (K1, K2, sched.Deadlock, sched.StepCap):
                raise
            except Exception as e:      # noqa - the first time round it worked
                raise K2(f"repeating a stage on the same object raises {type(e).__name__} although the first time succeeded")
        if dump_model(inst) != mbefore:
            raise K1("model instance changed by serialize()")
        if dump_tree(out) != obefore:
            raise K1("written element tree changed by tostring()/serialize()")
        hdr = t.header
        return {"header": [type(hdr).__name__, str(hdr)], "tree": before, "model": mbefore, "out": obefore, "text": txt,
                "serialized": ser.decode()}
    return fn


def op_reuse(data):
    """what a caller does between two calls must not leak into the second: the result depends on the input *as it
    is now* - an unchanged tree converts to an equal model even after the caller edited the earlier model, an
    edited tree converts to the edited model, an edited model is written as edited"""
    def fn():
        from ofxtools.Parser import OFXTree

        def fresh():
            t = OFXTree()
            t.parse(io.BytesIO(data))
            return t
        t = fresh()
        inst = t.convert()
        m1 = dump_model(inst)
        tree1 = dump_tree(t.getroot())
        # the caller edits the model it was given
        inst.signonmsgsrsv1.sonrs.language = "FRA"
        if dump_tree(t.getroot()) != tree1:
            raise K1("editing the converted model changed the parsed tree it came from")
        if dump_model(t.convert()) != m1:
            raise K2("the unchanged tree converts to a different model after the caller edited the earlier result")
        # the caller edits the tree in place
        t.getroot().find(".//LANGUAGE").text = "SPA"
        ref = fresh()
        ref.getroot().find(".//LANGUAGE").text = "SPA"
        want = dump_model(ref.convert())
        got = dump_model(t.convert())
        if got != want:
            raise K2("after an in-place edit of the tree, convert() does not give the model of the tree as it is now")
        # writing an edited model
        inst3 = t.convert()
        out1 = dump_tree(inst3.to_etree())
        inst3.signonmsgsrsv1.sonrs.language = "ITA"
        out2 = dump_tree(inst3.to_etree())
        if json.dumps(out2) != json.dumps(out1).replace("SPA", "ITA"):
            raise K2("to_etree() after an edit of the model does not write the model as it is now")
        return {"model": got, "out": out2}
    return fn


def op_header(data):
    def fn():
        from ofxtools.header import parse_header
        src = io.BytesIO(data)
        hdr, body = parse_header(src)
        if src.closed:
            raise K1("the caller's stream was closed by parse_header")
        if src.getvalue() != data:
            raise K1("source bytes changed by parse_header")
        return {"header": [type(hdr).__name__, str(hdr)], "body": body}
    return fn


def op_treebuilder(text):
    def fn():
        from ofxtools.Parser import TreeBuilder
        b = TreeBuilder()
        b.feed(text)
        return dump_tree(b.close())
    return fn


def op_from_etree(doc, twice=True):
    """Aggregate.from_etree on a hand-built element (sub-document), then write it back"""
    def fn():
        import xml.etree.ElementTree as ET
        from ofxtools.models.base import Aggregate

        def build(d):
            e = ET.Element(d[0])
            if isinstance(d[1], str):
                e.text = refofx.decode_entities(d[1])
            else:
                for c in d[1]:
                    e.append(build(c))
            return e
        root = build(doc)
        before = dump_tree(root)
        inst = Aggregate.from_etree(root)
        if dump_tree(root) != before:
            raise K1(f"element tree changed by from_etree({doc[0]})")
        m = dump_model(inst)
        out = inst.to_etree()
        if dump_model(inst) != m:
            raise K1(f"model instance changed by to_etree({doc[0]})")
        return {"model": m, "out": dump_tree(out)}
    return fn


def op_type(kind, args, method, value):
    def fn():
        from ofxtools import Types
        conv = getattr(Types, kind)(*args[0], **args[1])
        v = value() if callable(value) else value
        keep = copy.deepcopy(v)
        r = getattr(conv, method)(v)
        if v != keep:
            raise K1(f"value changed by {kind}.{method}")
        return dump_value(r)
    return fn


_FRESH = [0]


def op_fresh(kind, n):
    """n values no earlier call in this process has seen (a process-wide counter): whatever the converters
    remember about earlier values - memo tables, bounded caches and their eviction - is driven through its
    whole life; each result is checked against plain arithmetic"""
    def fn():
        import decimal
        from ofxtools import Types
        bad = []
        for _ in range(n):
            _FRESH[0] += 1
            k = _FRESH[0]
            if kind == "DateTime":
                want = datetime.datetime(2001, 1, 1, tzinfo=UTC) + datetime.timedelta(seconds=97 * k)
                got = Types.DateTime().convert(want.strftime("%Y%m%d%H%M%S"))
            elif kind == "Time":
                want = (datetime.datetime(2001, 1, 1, tzinfo=UTC) + datetime.timedelta(seconds=61 * k)).timetz()
                got = Types.Time().convert(want.strftime("%H%M%S") + f".{k % 1000:03d}")
                want = want.replace(microsecond=(k % 1000) * 1000)
            else:
                text = f"{k}.{k % 100:02d}"
                want = decimal.Decimal(text)
                got = Types.Decimal(2).convert(text)
            if got != want:
                bad.append(k)
        if bad:
            raise K2(f"{len(bad)} of {n} never-seen {kind} values converted to something else than arithmetic says")
        return {"fresh": kind, "n": n}
    return fn


def build_ops():
    docs = _docs()
    ops = []
    for nm in ("stmt", "profile", "acctinfo", "invest", "ext"):
        d = docs[nm]
        ops.append((f"pipeline:{nm}:v1u", op_pipeline(_file(d, 102, "v1u", False), {"version": 102, "close_elements": False})))
        ops.append((f"pipeline:{nm}:v2pretty", op_pipeline(_file(d, 203, "v2", True), {"version": 220, "prettyprint": True})))
        ops.append((f"pipeline:{nm}:v1c", op_pipeline(_file(d, 160, "v1c", False), {"version": 103, "prettyprint": True, "close_elements": True})))
    # one small statement in five variants that differ only in the GMT offsets of its date-times: concurrent
    # conversions then go through the very same shared field converters with different zone data
    for k, (off, pos) in enumerate([("[-5:EST]", "[-5:EST]"), ("[+5.30:IST]", "[+5.30:IST]"), ("[0:GMT]", ""),
                                    ("[+2:EET]", "[-8:PST]"), ("", "[+1:CET]")]):
        d = ("OFX", [("SIGNONMSGSRSV1", [("SONRS", [("STATUS", [("CODE", "0"), ("SEVERITY", "INFO")]),
                                                    ("DTSERVER", "20230301170000.000" + off), ("LANGUAGE", "ENG")])]),
                     ("BANKMSGSRSV1", [("STMTTRNRS", [("TRNUID", "1"), peers.status_doc(0), ("STMTRS", [
                         ("CURDEF", "USD"), ("BANKACCTFROM", [("BANKID", "1"), ("ACCTID", "2"), ("ACCTTYPE", "CHECKING")]),
                         ("BANKTRANLIST", [("DTSTART", "20230201000000.000" + off), ("DTEND", "20230301000000.000" + pos),
                                           ("STMTTRN", [("TRNTYPE", "CHECK"), ("DTPOSTED", "20230215120000.000" + pos),
                                                        ("TRNAMT", "-1.00"), ("FITID", "T1")])]),
                         ("LEDGERBAL", [("BALAMT", "9.00"), ("DTASOF", "20230301170000.000" + off)])])])])])
        ops.append((f"pipeline:tzvar:{k}", op_pipeline(_file(d, 102 if k % 2 else 203, "v1u", False),
                                                       {"version": 203})))
    # the same stages twice on the same objects
    ops.append(("pipeline-rep:stmt:v1u", op_pipeline(_file(docs["stmt"], 102, "v1u", False), {"version": 102, "close_elements": False}, repeat=True)))
    ops.append(("pipeline-rep:invest:v2pretty", op_pipeline(_file(docs["invest"], 203, "v2", True), {"version": 220, "prettyprint": True}, repeat=True)))
    ops.append(("pipeline-rep:ext:v1c", op_pipeline(_file(docs["ext"], 160, "v1c", False), {"version": 103, "prettyprint": True, "close_elements": True}, repeat=True)))
    for kind in ("DateTime", "Time", "Decimal"):
        ops.append((f"fresh:{kind}:300", op_fresh(kind, 300)))
    ops.append(("fresh:DateTime:600", op_fresh("DateTime", 600)))
    ops.append(("reuse:stmt:v1u", op_reuse(_file(docs["stmt"], 102, "v1u", False))))
    ops.append(("reuse:invest:v2", op_reuse(_file(docs["invest"], 203, "v2", True))))
    for nm in ("bad_enum", "missing_required", "out_of_order"):
        ops.append((f"pipeline:{nm}", op_pipeline(_file(docs[nm], 102, "v1u", False), {})))
    ops.append(("header:v1", op_header(_file(docs["stmt"], 102, "v1u", False))))
    ops.append(("header:v2", op_header(_file(docs["stmt"], 211, "v2", False))))
    ops.append(("header:bad", op_header(b"OFXHEADER:100\r\nDATA:OFXSGML\r\nVERSION:999\r\n\r\n<OFX></OFX>")))
    ops.append(("header:none", op_header(b"no header here <OFX></OFX>")))
    ops.append(("treebuilder:stmt", op_treebuilder(refofx.render_body(docs["stmt"], "v1u"))))
    ops.append(("treebuilder:ext", op_treebuilder(refofx.render_body(docs["ext"], "v2", True))))
    ops.append(("treebuilder:misnested", op_treebuilder("<OFX><A><B>1</A></OFX>")))
    mail = ("MAIL", [("USERID", "u"), ("DTCREATED", "20200101120000"), ("FROM", "me"), ("TO", "you"), ("SUBJECT", "s"),
                     ("MSGBODY", "b &amp; c"), ("INCIMAGES", "N"), ("USEHTML", "N")])
    ops.append(("from_etree:MAIL", op_from_etree(mail)))
    stock = ("STOCKINFO", [("SECINFO", [("SECID", [("UNIQUEID", "123456789"), ("UNIQUEIDTYPE", "CUSIP")]),
                                        ("SECNAME", "ACME"), ("TICKER", "ACM")]), ("STOCKTYPE", "COMMON"),
                           ("YIELD", "3.5"), ("DTYIELDASOF", "20200101120000.000[-5:EST]")])
    ops.append(("from_etree:STOCKINFO", op_from_etree(stock)))
    trn = ("STMTTRN", [("TRNTYPE", "CHECK"), ("DTPOSTED", "20200115103000.500[+1:CET]"), ("TRNAMT", "-12,50"),
                       ("FITID", "F"), ("CHECKNUM", "1001"), ("NAME", "n"), ("INTU.X", "y")])
    ops.append(("from_etree:STMTTRN", op_from_etree(trn)))
    bal = ("LEDGERBAL", [("BALAMT", "1.0"), ("DTASOF", "20191231")])
    ops.append(("from_etree:LEDGERBAL", op_from_etree(bal)))
    ops.append(("from_etree:bad_bool", op_from_etree(("MAIL", mail[1][:-1] + [("USEHTML", "maybe")]))))
    est = datetime.timezone(datetime.timedelta(hours=-5))
    for i, txt in enumerate(["20200101", "20200101123456", "20200101123456.789", "20200101123456.789[-5:EST]",
                             "20200101123456[+2]", "20200101123456.000[+5.30:IST]", "20201301", "2020010112345"]):
        ops.append((f"type:DateTime.convert:{i}", op_type("DateTime", ((), {}), "convert", txt)))
    ops.append(("type:DateTime.unconvert:utc", op_type("DateTime", ((), {}), "unconvert",
                                                        lambda: datetime.datetime(2020, 1, 1, 12, 0, 0, 500000, tzinfo=UTC))))
    ops.append(("type:DateTime.unconvert:est", op_type("DateTime", ((), {}), "unconvert",
                                                        lambda: datetime.datetime(2020, 1, 1, 12, 0, 0, tzinfo=est))))
    # one instant in several zones: what is written must depend on the value alone, not on what was written before
    ist = datetime.timezone(datetime.timedelta(hours=5, minutes=30), "IST")
    for nm, tz in (("utc", UTC), ("est", est), ("ist", ist)):
        ops.append((f"type:DateTime.unconvert:same-instant:{nm}", op_type("DateTime", ((), {}), "unconvert",
                    lambda tz=tz: datetime.datetime(2023, 3, 1, 17, 0, 0, tzinfo=UTC).astimezone(tz))))
        ops.append((f"type:Time.unconvert:same-instant:{nm}", op_type("Time", ((), {}), "unconvert",
                    lambda tz=tz: datetime.datetime(2023, 3, 1, 17, 0, 0, tzinfo=UTC).astimezone(tz).timetz())))
    # one tzinfo object that renders differently for different values (daylight saving), and two fixed zones with
    # equal offsets but different names: what is written must follow the value, not what the zone last looked like
    class _DstZone(datetime.tzinfo):
        def utcoffset(self, dt):
            return datetime.timedelta(hours=-4 if dt is not None and 4 <= dt.month <= 10 else -5)

        def dst(self, dt):
            return datetime.timedelta(hours=1 if dt is not None and 4 <= dt.month <= 10 else 0)

        def tzname(self, dt):
            return "EDT" if dt is not None and 4 <= dt.month <= 10 else "EST"
    dstzone = _DstZone()
    ops.append(("type:DateTime.unconvert:dstzone:winter", op_type("DateTime", ((), {}), "unconvert",
                lambda: datetime.datetime(2024, 1, 15, 12, 0, 0, tzinfo=dstzone))))
    ops.append(("type:DateTime.unconvert:dstzone:summer", op_type("DateTime", ((), {}), "unconvert",
                lambda: datetime.datetime(2024, 7, 15, 12, 0, 0, tzinfo=dstzone))))
    for nm in ("EST", "CDT"):
        ops.append((f"type:DateTime.unconvert:minus5:{nm}", op_type("DateTime", ((), {}), "unconvert",
                    lambda nm=nm: datetime.datetime(2024, 3, 1, 8, 30, 0, tzinfo=datetime.timezone(datetime.timedelta(hours=-5), nm)))))
    ops.append(("type:DateTime.unconvert:naive", op_type("DateTime", ((), {}), "unconvert",
                                                          lambda: datetime.datetime(2020, 1, 1, 12, 0, 0))))
    ops.append(("type:DateTime.convert:dt", op_type("DateTime", ((), {}), "convert",
                                                     lambda: datetime.datetime(2020, 6, 1, 1, 2, 3, tzinfo=est))))
    ops.append(("type:Time.convert", op_type("Time", ((), {}), "convert", "123456.789[-5:EST]")))

    # repetition: the same work many times in a row (also work that FAILS half-way through writing, converting
    # or parsing), then one good pipeline whose result is what counts
    good = _file(docs["stmt"], 203, "v2", False)

    bad_enum_file = _file(docs["bad_enum"], 102, "v1u", False)

    def burst(kind, n):
        def fn():
            from ofxtools.Parser import OFXTree
            outcomes = []
            t = OFXTree()
            t.parse(io.BytesIO(good))
            inst = t.convert()
            if kind == "bad-write":
                inst.bankmsgsrsv1[0].stmtrs.banktranlist.append("not an aggregate")
            tb = OFXTree()
            tb.parse(io.BytesIO(bad_enum_file))
            for i in range(n):
                try:
                    if kind == "bad-parse":
                        OFXTree().parse(io.BytesIO(good[:-9]))
                    elif kind == "bad-write":
                        inst.to_etree()
                    else:
                        tb.convert()
                    outcomes.append("ok")
                except Exception as e:          # noqa
                    outcomes.append(type(e).__name__)
            if len(set(outcomes)) > 1:
                raise K2(f"{n} repetitions of the same work ({kind}) ended differently: {sorted(set(outcomes))}")
            final = op_pipeline(good, {"version": 203})()
            return {"outcomes": sorted(set(outcomes)), "final": final}
        return fn
    for kind in ("bad-write", "bad-parse", "bad-convert"):
        ops.append((f"burst:{kind}:x24", burst(kind, 24)))

    # one instant in several zones: what is written must depend on the value alone, not on what was written before
    ist = datetime.timezone(datetime.timedelta(hours=5, minutes=30), "IST")
    for nm, tz in (("utc", UTC), ("est", est), ("ist", ist)):
        ops.append((f"type:DateTime.unconvert:same-instant:{nm}", op_type("DateTime", ((), {}), "unconvert",
                    lambda tz=tz: datetime.datetime(2023, 3, 1, 17, 0, 0, tzinfo=UTC).astimezone(tz))))
        ops.append((f"type:Time.unconvert:same-instant:{nm}", op_type("Time", ((), {}), "unconvert",
                    lambda tz=tz: datetime.datetime(2023, 3, 1, 17, 0, 0, tzinfo=UTC).astimezone(tz).timetz())))
    # one tzinfo object that renders differently for different values (daylight saving), and two fixed zones with
    # equal offsets but different names: what is written must follow the value, not what the zone last looked like
    class _DstZone(datetime.tzinfo):
        def utcoffset(self, dt):
            return datetime.timedelta(hours=-4 if dt is not None and 4 <= dt.month <= 10 else -5)

        def dst(self, dt):
            return datetime.timedelta(hours=1 if dt is not None and 4 <= dt.month <= 10 else 0)

        def tzname(self, dt):
            return "EDT" if dt is not None and 4 <= dt.month <= 10 else "EST"
    dstzone = _DstZone()
    ops.append(("type:DateTime.unconvert:dstzone:winter", op_type("DateTime", ((), {}), "unconvert",
                lambda: datetime.datetime(2024, 1, 15, 12, 0, 0, tzinfo=dstzone))))
    ops.append(("type:DateTime.unconvert:dstzone:summer", op_type("DateTime", ((), {}), "unconvert",
                lambda: datetime.datetime(2024, 7, 15, 12, 0, 0, tzinfo=dstzone))))
    for nm in ("EST", "CDT"):
        ops.append((f"type:DateTime.unconvert:minus5:{nm}", op_type("DateTime", ((), {}), "unconvert",
                    lambda nm=nm: datetime.datetime(2024, 3, 1, 8, 30, 0, tzinfo=datetime.timezone(datetime.timedelta(hours=-5), nm)))))
    ops.append(("type:DateTime.unconvert:naive", op_type("DateTime", ((), {}), "unconvert",
                                                          lambda: datetime.datetime(2020, 1, 1, 12, 0, 0))))
    ops.append(("type:DateTime.convert:dt", op_type("DateTime", ((), {}), "convert",
                                                     lambda: datetime.datetime(2020, 6, 1, 1, 2, 3, tzinfo=est))))
    ops.append(("type:Time.convert", op_type("Time", ((), {}), "convert", "123456.789[-5:EST]")))

    # repetition: the same work many times in a row (also work that FAILS half-way through writing, converting
    # or parsing), then one good pipeline whose result is what counts
    good = _file(docs["stmt"], 203, "v2", False)

    def burst(kind, n):
        def fn():
            from ofxtools.Parser import OFXTree
            outcomes = []
            for i in range(n):
                try:
                    t = OFXTree()
                    if kind == "bad-parse":
                        t.parse(io.BytesIO(good[:-9]))
                    else:
                        t.parse(io.BytesIO(good))
                        inst = t.convert()
                        if kind == "bad-write":
                            inst.bankmsgsrsv1[0].stmtrs.banktranlist.append("not an aggregate")
                            inst.to_etree()
                        elif kind == "bad-convert":
                            t._root[1][0][2][0].text = "XXX"      # CURDEF -> unknown currency
                            t.convert()
                        else:
                            inst.to_etree()
                    outcomes.append("ok")
                except Exception as e:          # noqa
                    outcomes.append(type(e).__name__)
            if len(set(outcomes)) > 1:
                raise K2(f"{n} repetitions of the same work ({kind}) ended differently: {sorted(set(outcomes))}")
            final = op_pipeline(good, {"version": 203})()
            return {"outcomes": sorted(set(outcomes)), "final": final}
        return fn
    for kind in ("bad-write", "bad-parse", "bad-convert", "good"):
        ops.append((f"burst:{kind}:x30", burst(kind, 30)))
    ops.append(("type:Time.unconvert", op_type("Time", ((), {}), "unconvert",
                                                lambda: datetime.time(12, 0, 0, tzinfo=UTC))))
    ops.append(("type:Decimal.convert:comma", op_type("Decimal", ((2,), {}), "convert", "1,5")))
    ops.append(("type:Decimal.unconvert", op_type("Decimal", ((2,), {}), "unconvert", lambda: __import__("decimal").Decimal("3.14159"))))
    ops.append(("type:String.convert:long", op_type("String", ((5,), {}), "convert", "toolong")))
    ops.append(("type:OneOf.convert:bad", op_type("OneOf", (("A", "B"), {}), "convert", "C")))
    ops.append(("type:Bool.convert", op_type("Bool", ((), {"required": True}), "convert", "Y")))
    ops.append(("type:Integer.unconvert", op_type("Integer", ((3,), {}), "unconvert", 999)))
    return ops


def exec_op(name):
    """-> (digest, short) ; exceptions are results (type only), K1 is re-raised"""
    fn = OPS_BY_NAME[name]
    try:
        r = fn()
    except (K1, K2):
        raise
    except (sched.Deadlock, sched.StepCap):
        raise
    except BaseException as e:      # noqa
        r = {"raises": type(e).__name__}
    d = digest(r)
    return d, (json.dumps(r, default=repr)[:160])


TESTS_CORPUS = {"classes": 0, "note": "not loaded"}


def _etree_to_doc(e):
    if len(e) == 0 and e.text is not None:
        return (e.tag, e.text)
    return (e.tag, [_etree_to_doc(c) for c in e])


def tests_corpus_ops(every):
    """the `etree` sample of every model test class importable from <repo>/tests (about 390 classes)"""
    import importlib
    import sys
    import xml.etree.ElementTree as ET
    tdir = os.path.join(env.REPO, "tests")
    ops = []
    try:
        if tdir not in sys.path:
            sys.path.insert(1, tdir)
        names = sorted(f[:-3] for f in os.listdir(tdir) if f.startswith("test_models_") and f.endswith(".py"))
        seen = set()
        k = 0
        for mod in names:
            try:
                m = importlib.import_module(mod)
            except Exception:      # noqa
                continue
            for cname in sorted(vars(m)):
                cls = vars(m)[cname]
                if not isinstance(cls, type) or not cname.endswith("TestCase") or cls.__module__ != mod:
                    continue
                try:
                    e = cls.etree
                except Exception:  # noqa
                    continue
                if not isinstance(e, ET.Element):
                    continue
                doc = _etree_to_doc(e)
                key = json.dumps(doc)
                if key in seen:
                    continue
                seen.add(key)
                k += 1
                if k % every:
                    continue
                ops.append((f"tests:{mod[12:]}.{cname[:-8]}", op_from_etree_raw(doc)))
        TESTS_CORPUS.update({"classes": len(ops), "note": f"every {every}th of {k} distinct samples from {len(names)} test modules"})
    except Exception as e:         # noqa
        TESTS_CORPUS.update({"classes": 0, "note": f"tests corpus not loaded: {type(e).__name__}: {e}"})
    return ops


def op_from_etree_raw(doc):
    """like op_from_etree but element text is taken verbatim (samples come from ET elements, not markup)"""
    def fn():
        import xml.etree.ElementTree as ET
        from ofxtools.models.base import Aggregate

        def build(d):
            e = ET.Element(d[0])
            if isinstance(d[1], str):
                e.text = d[1]
            else:
                for c in d[1]:
                    e.append(build(c))
            return e
        root = build(doc)
        before = dump_tree(root)
        inst = Aggregate.from_etree(root)
        if dump_tree(root) != before:
            raise K1(f"element tree changed by from_etree({doc[0]})")
        m = dump_model(inst)
        out = inst.to_etree()
        if dump_model(inst) != m:
            raise K1(f"model instance changed by to_etree({doc[0]})")
        o1 = dump_tree(out)
        txt = ET.tostring(out).decode()
        if dump_tree(out) != o1:
            raise K1(f"written tree changed by tostring({doc[0]})")
        return {"model": m, "out": o1, "text": txt}
    return fn


def prepare(tier="quick"):
    """baselines: each operation once, alone, in a pristine forked child (the parent stays pristine)"""
    global OPS, OPS_BY_NAME
    OPS = build_ops()
    OPS += tests_corpus_ops(1 if tier == "thorough" else 4)
    OPS_BY_NAME = dict(OPS)
    for nm, fn in OPS:
        r, w = os.pipe()
        pid = os.fork()
        if pid == 0:
            try:
                os.close(r)
                try:
                    d, short = exec_op(nm)
                except (K1, K2) as e:
                    d, short = "K1", str(e)
                os.write(w, json.dumps([d, short]).encode())
            finally:
                os._exit(0)
        os.close(w)
        buf = b""
        while True:
            b = os.read(r, 65536)
            if not b:
                break
            buf += b
        os.close(r)
        os.waitpid(pid, 0)
        BASELINE[nm] = tuple(json.loads(buf.decode()))


def opcode_run(index):
    """Runs 0..255 are line-level as before (bit-identical to the earlier machinery); runs 256..303 (the tail of the
    quick tier) and every eighth run after that pre-empt between *bytecodes* inside the files that hold process-wide
    shared objects.  A pure function of the run index, which replay files carry."""
    return index >= 256 and (index < 304 or index % 8 == 7)


class Threads:
    def __init__(self, ch, index=0):
        self.ch = ch
        import ofxtools
        base = os.path.dirname(ofxtools.__file__) + os.sep
        self.mean = [30, 3, 300, 3000][ch.weighted("cfg.mean_quantum", [4, 1.5, 3, 2])]
        self.sim = sched.Sim(ch, line_prefixes=(base, functools.__file__), mean_quantum=self.mean,
                             step_cap=1_500_000)
        sched.CURRENT = self.sim
        self.sim.line_probe = self.line_probe
        if ch.flag("cfg.hotzone", 0.5):
            # converters are class-level singletons shared by all instances (the property's own anchor): stall
            # tasks inside them so that another task runs through the same converter meanwhile
            zone = ch.weighted("cfg.hotzone.files", [4, 2, 1])
            self.sim.hot_files = [("ofxtools/Types.py", "functools.py"),
                                  ("ofxtools/Types.py", "functools.py", "ofxtools/utils.py", "ofxtools/header.py"),
                                  ("ofxtools/models/base.py",)][zone]
            self.sim.hot_k = [25, 60, 12][ch.pick("cfg.hotzone.k", 3)] * (20 if zone == 2 else 1)
            self.sim.hot_salt = ch.pick("cfg.hotzone.salt", 1 << 20)
            self.sim.count("probe.hotzone_runs")
        if opcode_run(index):
            zone = ch.weighted("cfg.opcode.files", [3, 2, 2])
            self.sim.opcode_files = [("ofxtools/Types.py", "functools.py"),
                                     ("ofxtools/Types.py", "functools.py", "ofxtools/utils.py", "ofxtools/header.py",
                                      "ofxtools/models/base.py"),
                                     ("ofxtools/Types.py", "ofxtools/Parser.py", "ofxtools/Client.py",
                                      "ofxtools/models/base.py", "ofxtools/models/__init__.py")][zone]
            self.sim.count("probe.opcode_level_runs")
            # per-bytecode events are ~10x the line events: short quanta and (in run()) small operations, so that the
            # whole run stays pre-emptible instead of running into the step cap
            self.sim.mean_quantum = self.mean = [3, 10, 30][ch.pick("cfg.opcode.quantum", 3)]
        self.opcode = opcode_run(index)
        self.violations = []
        self.vkeys = set()
        self.judged = 0

    def line_probe(self, filename, func, lineno):
        sim = self.sim
        if filename.endswith("functools.py"):
            if func in ("register", "dispatch", "wrapper", "_method", "__get__"):
                sim.count("probe.switch_inside_functools_" + func)
            else:
                sim.count("probe.switch_inside_functools_other")
        elif func in ("groom", "ungroom"):
            sim.count("probe.switch_inside_groom")
        elif func == "__init__" and filename.endswith("base.py"):
            sim.count("probe.switch_inside_Aggregate___init__")
        elif func == "normalize_to_gmt":
            sim.count("probe.switch_inside_normalize_to_gmt")
        elif filename.endswith("Parser.py"):
            sim.count("probe.switch_inside_Parser")
        elif filename.endswith("Types.py"):
            sim.count("probe.switch_inside_Types")

    def violate(self, inv, sub, message, **facts):
        key = f"C17/{inv}/{sub}"
        self.sim.log(f"VIOLATION {key}: {message}")
        if key in self.vkeys:
            return
        self.vkeys.add(key)
        self.violations.append({"key": key, "invariant": inv, "message": message, "facts": facts})

    def judge(self, name, context):
        sim = self.sim
        try:
            d, short = exec_op(name)
        except K1 as e:
            self.violate("K1-input-mutated", name.split(":")[0], f"{name} ({context}): {e}", op=name)
            return
        except K2 as e:
            self.violate("K2-result-differs", "repetition", f"{name} ({context}): {e}", op=name)
            return
        self.judged += 1
        base = BASELINE[name]
        if base[0] == "K1":
            return
        if d != base[0]:
            self.violate("K2-result-differs", context.split(" ")[0],
                         f"{name} ({context}) gave {short!r}; alone in a fresh process it gives {base[1]!r}", op=name)

    def run(self, tier):
        ch = self.ch
        sim = self.sim
        names = [n for n, _ in OPS]
        n_hist = ch.geometric("hist.len", 4, 20) + (ch.geometric("hist.more", 15, 60) if ch.flag("hist.long", 0.1) else 0)
        hist = [names[ch.pick("hist.op", len(names))] for _ in range(n_hist)]
        for nm in hist:
            sim.log(f"history: {nm}")
            self.judge(nm, "history")
        shape = ch.weighted("cfg.tasks", [2, 4, 3, 2, 1, 1, 1])
        n_tasks = [1, 2, 3, 4, 5, 6, 16][shape]
        tiny = [n for n in names if n.startswith(("type:", "header:", "from_etree:"))]
        tiny_set = set(tiny)
        if self.opcode and n_tasks < 2:
            n_tasks = 2
        # swarm: in part of the runs every task draws from one family of related operations, so that the
        # tasks contend for the same shared objects (class-level converters, dispatch registries)
        fams = {}
        for n in names:
            parts = n.split(":")
            fam = ":".join(parts[:2]) if parts[0] in ("pipeline", "type", "tests") else parts[0]
            if parts[0] != "type":
                fam = fam.split(".")[0]        # tests:<module>; type:<Class>.<method> stays as it is
            fams.setdefault(fam, []).append(n)
        famlist = sorted(k for k, v in fams.items() if len(v) >= 3)
        focus = None
        if famlist and ch.flag("cfg.focus", 0.5):
            # date-time handling is where the shared converters carry run-time state: weight it up
            weights = [6 if ("tzvar" in k or "DateTime" in k or "Time" in k or k == "fresh") else 1 for k in famlist]
            focus = fams[famlist[ch.weighted("cfg.focus.family", weights)]]
            sim.log(f"focus family: {focus[0].rsplit(':', 1)[0]} ({len(focus)} operations)")
            sim.count("probe.focus_runs")
        plans = []
        for t in range(n_tasks):
            pool = focus if focus is not None else (tiny if n_tasks == 16 else names)
            if self.opcode:
                small = [n for n in (focus or ()) if n in tiny_set]
                pool = small if len(small) >= 3 else tiny
            k = 1 + ch.pick("task.ops", 3)
            if focus is not None and focus[0].startswith("fresh:") and n_tasks > 6:
                k = 1            # (hundreds of conversions per operation: keep many-task runs under the step cap)
            if self.opcode:
                k = 3 + ch.pick("task.ops.opcode", 8)      # small operations, more of them per task
            plans.append([pool[ch.pick("task.op", len(pool))] for _ in range(k)])

        def body(t, ops):
            def fn():
                for nm in ops:
                    sim.log(f"T{t} start {nm}")
                    self.judge(nm, f"threads n={n_tasks} history={n_hist}")
                    sim.log(f"T{t} done {nm}")
            return fn
        for t, ops in enumerate(plans):
            sim.spawn(f"T{t}", body(t, ops))
        sim.run_tasks()
        self.n_tasks = n_tasks
        self.n_hist = n_hist


def run(ch, index, tier):
    w = Threads(ch, index)
    sim = w.sim
    aborted = None
    try:
        w.run(tier)
    except sched.Deadlock as e:
        w.violate("K3-deadlock", "tasks", str(e))
        aborted = "deadlock"
        w.n_tasks = w.n_hist = 0
    except sched.StepCap as e:
        aborted = "stepcap"
        w.n_tasks = w.n_hist = 0
    stats = dict(sim.stats)
    stats["sched.switches"] = sim.switches
    stats["probe.line_events"] = sim.steps
    stats["probe.operations_judged"] = w.judged
    stats["probe.stepcap_aborts"] = 1 if aborted == "stepcap" else 0
    nontrivial = (sim.switches > w.n_tasks >= 2) or w.n_hist > 0
    sd = sim.sched_h.hexdigest() if sim.switches > 1 else None
    return {
        "violations": w.violations,
        "digest": sim.digest(),
        "sched_digest": sd,
        "nontrivial": bool(nontrivial),
        "stats": stats,
        "sim_time_s": 0.0,
        "decoded": sim.decoded,
        "summary": f"tasks={w.n_tasks} history={w.n_hist} mean_quantum={w.mean} switches={sim.switches} "
                   f"line_events={sim.steps} judged={w.judged} aborted={aborted}",
    }


def extra_coverage(results):
    return {"operations_in_corpus": len(OPS), "tests_corpus": dict(TESTS_CORPUS),
            "baseline_samples": {k: v[1][:100] for k, v in list(BASELINE.items())[:6]}}
