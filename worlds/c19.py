"""C19 - ofxget requests exactly the configured or discovered accounts and given dates."""
from . import w_ofxget

prop = "C19"
name = "w_ofxget/c19"
level = "exploration"
rule = ("one evaluation = one simulated history of 2-6 ofxget stmt/stmtend process runs with drawn account multisets "
        "(CLI and/or configuration file), dates, include flags, --dryrun or real sends, and --all against a simulated "
        "institution whose ACCTINFORS is drawn (any mix of bank/credit-card/investment accounts and service statuses); "
        "the statement request is read off the wire (or the dry-run output) by the reference reader; non-trivial = a "
        "run used --write or --all or several sources; distinct = distinct event-log digests")
components = {
    "real": ["ofxtools.scripts.ofxget request_stmt, request_stmtend, _request_acctinfo, _merge_acctinfo, extract_acctinfos, "
             "parse_*acctinfos, convert_datetime, init_client, merge_config", "OFXClient.request_statements/"
             "request_accounts and everything of W-client below it"],
    "stub": ["SimFS, SimNet, SimFI (ACCTINFORS / statements from the reference writer), SimOfxHome, clock, uuid4"],
}
assumptions = [
    "with --all no account options are given on the command line (their precedence is not stated by the property)",
    "one bank id and one broker id per account-information response",
    "a missing INCTRAN aggregate and INCTRAN/INCLUDE=N are both read as 'no transactions'",
]


def plan(tier):
    if tier == "thorough":
        return dict(runs=30000, wall_budget=1500, per_run_timeout=300, selftest=24, shrink_evals=300, shrink_seconds=120)
    return dict(runs=480, wall_budget=240, per_run_timeout=240, selftest=6, shrink_evals=120, shrink_seconds=45)


def run(ch, index, tier):
    return w_ofxget.run_world(ch, index, tier, "C19")
