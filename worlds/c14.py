"""C14 - the client sends only what it should, where it should, and nothing on a dry run.

Request histories over 1-3 simulated institutions and 1-4 client instances (restarts
create new instances with new cookie jars); in part of the runs several instances run
concurrently as seam-level tasks.  The oracle reads raw connection bytes with the
reference HTTP/OFX readers and compares them with the servers' own truth and a
per-instance cookie model.
"""
import datetime

from dst import sched, simfs, simnet, peers, refofx
from dst.simnet import (F_NONE, F_REFUSED, F_RESET_BEFORE, F_RESET_AFTER, F_TIMEOUT, F_TIMEOUT_AFTER,
                        F_HTTP500, F_SHORT_LEN, F_CUT_CLOSE)
from .w_client import World, Ident, V1, V2, clean_exc

UTC = datetime.timezone.utc

prop = "C14"
name = "w_client/c14"
level = "exploration"
rule = ("one evaluation = one simulated run: a history of 1-8 client operations (profile / statements / "
        "account-info / tax, each normal, skip_profile or dry run) over 1-4 client instances and 1-3 servers, "
        "optionally concurrent; non-trivial = at least one connection was opened and a fault fired, a cookie was "
        "replayed, two instances talked to one server, or tasks interleaved; distinct = distinct event-log digests")
components = {
    "real": ["ofxtools.Client.OFXClient (all request_* methods, _get_service_urls, request_profile, download, "
             "post_request, serialize, signon)", "ofxtools.Parser / header / models", "urllib.request (opener, "
             "HTTPCookieProcessor, AbstractHTTPHandler.do_open)", "http.client (request formatting, response parsing)",
             "http.cookiejar"],
    "stub": ["sockets (SimNet)", "TLS context", "financial institutions (SimFI)", "disk (SimFS)", "clock", "uuid4",
             "thread scheduler"],
}
assumptions = [
    "host-only session cookies with Path=/ on dotted host names (the undisputed part of cookie policy)",
    "each institution advertises one service URL that does not change during a run",
    "redirects are never generated",
    "requests-library branch of post_request not exercised (library absent)",
    "the reference HTTP and OFX readers (dst/simnet.py HttpRequest, dst/refofx.py) are correct",
]

NET_FAULTS = [F_REFUSED, F_RESET_BEFORE, F_RESET_AFTER, F_TIMEOUT, F_TIMEOUT_AFTER, F_HTTP500, F_SHORT_LEN,
              F_CUT_CLOSE]
ORGFID = [(None, None), ("ORGX", "1"), ("ORGY", "7"), ("Org & Co", "F-9")]
VERSIONS = [203, 102, 220, 103, 151, 160, 200, 211]
MSGSETS = [("BANK", "CC", "INV"), ("BANK",), peers.ALL_MSGSETS, ("INV", "CC")]
DEFAULT_UA = "InetClntApp/3.0"


def plan(tier):
    if tier == "thorough":
        return dict(runs=90000, wall_budget=1500, per_run_timeout=300, selftest=24, shrink_evals=300,
                    shrink_seconds=120)
    return dict(runs=1200, wall_budget=240, per_run_timeout=240, selftest=6, shrink_evals=120, shrink_seconds=45)


class Instance:
    def __init__(self, n, slot, client):
        self.n = n
        self.slot = slot
        self.client = client
        self.required = {}      # host -> latest cookie value certainly delivered
        self.allowed = {}       # host -> set of values possibly delivered
        self.scanned = 0        # conns already folded into the cookie model
        self.shared = False     # driven by two tasks at the same time
        self.asked_profile = False


class Op:
    def __init__(self, n, inst, kind, mode, reqs):
        self.n = n
        self.id = f"op{n}"
        self.inst = inst
        self.kind = kind
        self.mode = mode
        self.reqs = reqs
        self.ok = None
        self.exc = None
        self.data = None
        self.version_override = None


def split_url(url):
    return peers.url_parts_q(url)


class C14(World):
    def __init__(self, ch, tier):
        super().__init__(ch)
        self.ops = []
        self.instances = []
        self.faults_on = False
        self.enabled_faults = []
        self.nontrivial = False
        self.judged_conns = 0
        self.outage = {}

    def fault_policy(self, conn):
        if not self.faults_on or not self.enabled_faults:
            return (F_NONE, None)
        left = self.outage.get(conn.host, 0)       # a partition: the host stays unreachable for a few connections
        if left > 0:
            self.outage[conn.host] = left - 1
            self.sim.count("fault.net.partition-connection")
            self.nontrivial = True
            return ([F_REFUSED, F_TIMEOUT][left % 2], None)
        if self.ch.flag("net.partition", 0.03):
            self.outage[conn.host] = 1 + self.ch.pick("net.partition.len", 4)
            self.sim.count("fault.net.partition-start")
        if not self.ch.flag("net.fault", 0.10):
            return (F_NONE, None)
        kind = self.enabled_faults[self.ch.pick("net.kind", len(self.enabled_faults))]
        cut = None
        if kind in (F_SHORT_LEN, F_CUT_CLOSE):
            cut = (1 + self.ch.pick("net.cut", 39)) / 40.0
        self.nontrivial = True
        return (kind, cut)

    def behaviour(self, fi, seen):
        b = [peers.B_SPEC, peers.B_NEWER][self.ch.weighted("srv.beh", [5, 1])]
        return b

    # -- building requests -------------------------------------------------------------------
    def draw_requests(self):
        from ofxtools.Client import StmtRq, CcStmtRq, InvStmtRq, StmtEndRq, CcStmtEndRq
        ch = self.ch
        n = ch.geometric("rq.n", 2, 24)
        out = []
        d0 = datetime.datetime(2020, 1, 1, tzinfo=UTC)
        for i in range(n):
            k = ch.pick("rq.kind", 5)
            acct = f"{1000 + ch.pick('rq.acct', 50)}"
            ds = d0 if ch.pick("rq.dates", 2) else None
            if k == 0:
                out.append(StmtRq(acctid=acct, accttype=["CHECKING", "SAVINGS", "MONEYMRKT", "CREDITLINE"][ch.pick("rq.type", 4)], dtstart=ds))
            elif k == 1:
                out.append(CcStmtRq(acctid=acct, dtstart=ds))
            elif k == 2:
                out.append(InvStmtRq(acctid=acct, dtstart=ds))
            elif k == 3:
                out.append(StmtEndRq(acctid=acct, accttype="CHECKING", dtstart=ds))
            else:
                out.append(CcStmtEndRq(acctid=acct, dtstart=ds))
        return out

    def expected_msgsets(self, op):
        if op.kind == "profile":
            return {"PROFMSGSRQV1"}
        if op.kind == "accounts":
            return {"SIGNUPMSGSRQV1"}
        if op.kind == "tax":
            return {"TAX1099MSGSRQV1"}
        out = set()
        for r in op.reqs:
            nm = type(r).__name__
            if nm in ("StmtRq", "StmtEndRq"):
                out.add("BANKMSGSRQV1")
            elif nm in ("CcStmtRq", "CcStmtEndRq"):
                out.add("CREDITCARDMSGSRQV1")
            else:
                out.add("INVSTMTMSGSRQV1")
        return out

    # -- one operation -----------------------------------------------------------------------
    def do_op(self, inst, kind, mode, reqs):
        op = Op(len(self.ops), inst, kind, mode, reqs)
        self.ops.append(op)
        sim = self.sim
        slot = inst.slot
        if sim.is_task():
            self.net.op_of_task[sim.cur.name] = op.id
        else:
            self.net.current_op = op.id
        sim.log(f"{op.id} inst{inst.n}(slot{slot.n}) {kind} mode={mode} reqs={[type(r).__name__ for r in reqs]}")
        c = inst.client
        kw = {}
        if mode == "dryrun":
            kw["dryrun"] = True
        elif mode == "skip":
            kw["skip_profile"] = True
        ch = self.ch
        if ch.flag("op.nonewfileuid", 0.15):
            kw["gen_newfileuid"] = False
        if ch.flag("op.timeout", 0.15):
            kw["timeout"] = [5.0, 0.5, 30][ch.pick("op.timeout.v", 3)]
        try:
            if kind == "profile":
                pk = {k: v for k, v in kw.items() if k in ("gen_newfileuid", "timeout")}
                if ch.flag("op.profile_overrides", 0.25):       # what the profile scan passes
                    v = (V1 + V2)[ch.pick("op.version", len(V1 + V2))]
                    pk.update(version=v, prettyprint=bool(ch.pick("op.pretty", 2)),
                              close_elements=True if v >= 200 else not ch.pick("op.unclosed", 2))
                    op.version_override = v
                out = c.request_profile(dryrun=(mode == "dryrun"), **pk)
            elif kind == "statements":
                out = c.request_statements(slot.password, *reqs, **kw)
            elif kind == "accounts":
                out = c.request_accounts(slot.password, datetime.datetime(2019, 5, 1, tzinfo=UTC), **kw)
            else:
                years = ["2019", "2020", "2018"][:1 + ch.pick("op.tax.years", 3)]
                tk = dict(kw)
                if ch.pick("op.tax.acctnum", 2):
                    tk["acctnum"] = "A-77"
                tk["recid"] = ["R1", None][ch.pick("op.tax.recid", 2)]
                out = c.request_tax1099(slot.password, *years, **tk)
            op.data = out.read()
            op.ok = True
        except (sched.Deadlock, sched.StepCap):
            raise
        except Exception as e:      # noqa
            op.ok = False
            op.exc = clean_exc(e, 100)
        sim.log(f"{op.id} " + ("ok" if op.ok else "raised " + op.exc))
        if not sim.is_task():
            self.net.current_op = None
        return op

    # -- oracle ------------------------------------------------------------------------------------
    def classify_body(self, body):
        """-> dict(ok, kinds, userid, userpass, version) using the reference reader"""
        try:
            hdr, root = refofx.parse_file_strict(body)
            son = root.find("SIGNONMSGSRQV1/SONRQ")
            if root.tag != "OFX" or son is None:
                return {"ok": False, "why": "no SONRQ"}
            return {"ok": True, "kinds": [c.tag for c in root.children if c.tag != "SIGNONMSGSRQV1"],
                    "userid": son.get("USERID"), "userpass": son.get("USERPASS"),
                    "version": hdr["_version"], "root": root}
        except refofx.RefError as e:
            return {"ok": False, "why": str(e)}

    def judge_op(self, op):
        inst = op.inst
        slot = inst.slot
        conns = [c for c in self.net.conns if c.op == op.id]
        # I1 -----------------------------------------------------------------------------------
        if op.mode == "dryrun":
            if conns:
                self.violate("C14", "I1-dryrun-network", op.kind,
                             f"{op.id}: dry run of {op.kind} opened {len(conns)} connection(s), first to {conns[0].scheme}://{conns[0].host}:{conns[0].port}",
                             kind=op.kind)
            if op.ok:
                info = self.classify_body(op.data)
                if not info["ok"]:
                    self.violate("C14", "I4-body", "dryrun-output", f"{op.id}: dry-run output is not an OFX request: {info['why']}")
            return
        if op.ok is False and not conns:
            # every argument the world passes is valid, so nothing but the network can make a request fail
            self.violate("C14", "I2-count", "none-sent",
                         f"{op.id}: {op.kind} ({op.mode}) raised {op.exc} without any network activity; "
                         f"exactly one POST expected", kind=op.kind)
        n_prof = n_main = 0
        for c in conns:
            self.judged_conns += 1
            rq = simnet.HttpRequest(c.raw_out) if c.request is None else c.request
            if c.fault == F_REFUSED or not c.raw_out:
                continue
            where = f"{op.id} conn c{c.id} to {c.scheme}://{c.host}:{c.port}{rq.target}"
            # I2 -- exactly one POST per connection, body length as declared
            if rq.method != "POST":
                self.violate("C14", "I2-method", rq.method or "none", f"{where}: method is {rq.method!r}, not POST")
            cl = rq.header("Content-Length")
            if not rq.well_formed or cl is None or not cl.isdigit() or int(cl) != len(rq.body):
                self.violate("C14", "I2-framing", "content-length",
                             f"{where}: Content-Length {cl!r} but body has {len(rq.body)} bytes")
            # I3 -- headers
            ct = (rq.header("Content-Type") or "").split(";")[0].strip().lower()
            if ct != "application/x-ofx":
                self.violate("C14", "I3-headers", "content-type", f"{where}: Content-Type is {rq.header('Content-Type')!r}")
            acc = rq.header("Accept")
            if acc is not None:
                ranges = []
                for part in acc.split(","):
                    bits = [b.strip() for b in part.split(";")]
                    q = 1.0
                    for b in bits[1:]:
                        if b.startswith("q="):
                            try:
                                q = float(b[2:])
                            except ValueError:
                                q = 1.0
                    if q > 0:
                        ranges.append(bits[0].lower())
                if not any(r in ("*/*", "application/*", "application/x-ofx") for r in ranges):
                    self.violate("C14", "I3-headers", "accept", f"{where}: Accept {acc!r} does not admit application/x-ofx")
            else:
                self.violate("C14", "I3-headers", "accept", f"{where}: no Accept header")
            want_ua = slot.useragent if slot.useragent is not None else DEFAULT_UA
            if rq.header_all("User-Agent") != [want_ua]:
                self.violate("C14", "I3-headers", "user-agent",
                             f"{where}: User-Agent {rq.header_all('User-Agent')!r}, configured {want_ua!r}")
            # I4 -- body
            info = self.classify_body(rq.body)
            dest = (c.scheme, c.host.lower(), c.port, rq.target)
            if not info["ok"]:
                self.violate("C14", "I4-body", "unreadable", f"{where}: body is not one OFX request file: {info['why']}")
                continue
            kinds = set(info["kinds"])
            is_prof = "PROFMSGSRQV1" in kinds
            if is_prof:
                n_prof += 1
                inst.asked_profile = True
                if kinds != {"PROFMSGSRQV1"}:
                    self.violate("C14", "I4-body", "profile-mixed", f"{where}: profile request also carries {sorted(kinds)}")
                # I5 -- profile requests: configured URL, anonymous credentials
                if dest != split_url(slot.url):
                    self.violate("C14", "I5-destination", "profile",
                                 f"{where}: profile request did not go to the configured URL {slot.url}")
                if info["userid"] != peers.ANON or info["userpass"] != peers.ANON:
                    self.violate("C14", "I5-credentials", "profile-not-anonymous",
                                 f"{where}: profile request carries USERID={info['userid']!r} (anonymous placeholder expected)")
                if op.mode == "skip":
                    self.violate("C14", "I2-count", "profile-despite-skip",
                                 f"{where}: a profile request was sent although profile lookup was to be skipped")
            else:
                n_main += 1
                if op.mode == "normal" and not inst.asked_profile and not self.asked_before(inst, c):
                    # the advertised URL can only be known from the institution: a client instance that sends
                    # credentials without ever having asked for the profile is using hearsay (a disk cache of
                    # unknown age written by some earlier process)
                    self.violate("C14", "I5-destination", "credentials-before-any-profile-lookup",
                                 f"{where}: this client instance sends the user's credentials although it has never "
                                 f"requested the institution's profile (profile lookup was not to be skipped)")
                want = self.expected_msgsets(op)
                if kinds != want:
                    self.violate("C14", "I4-body", "message-sets",
                                 f"{where}: carries {sorted(kinds)}, the operation asked for {sorted(want)}")
                if info["userid"] != slot.userid or info["userpass"] != slot.password:
                    self.violate("C14", "I5-credentials", "wrong-user",
                                 f"{where}: carries USERID={info['userid']!r}, instance is configured for {slot.userid!r}")
                exp = slot.url if op.mode == "skip" else slot.fi.svc_url
                if op.mode != "skip" and slot.fi.inv_url:
                    # two advertised URLs: every message set in the request must be advertised at the destination
                    # (nothing advertises the tax message set: either is accepted)
                    ok_urls = {slot.fi.svc_url, slot.fi.inv_url}
                    for k in kinds:
                        if k == "INVSTMTMSGSRQV1":
                            ok_urls &= {slot.fi.inv_url}
                        elif k != "TAX1099MSGSRQV1":
                            ok_urls &= {slot.fi.svc_url}
                    if dest not in {split_url(u) for u in ok_urls}:
                        self.violate("C14", "I5-destination", "credentials-to-wrong-url",
                                     f"{where}: carries {sorted(kinds)}; the profile advertises the bank/card/sign-up "
                                     f"message sets at {slot.fi.svc_url} and investment statements at {slot.fi.inv_url}",
                                     mode=op.mode)
                elif dest != split_url(exp):
                    self.violate("C14", "I5-destination", "credentials-to-wrong-url",
                                 f"{where}: request with the user's credentials went there, expected {exp} "
                                 f"({'configured URL, profile skipped' if op.mode == 'skip' else 'service URL advertised by the institution at ' + slot.url})",
                                 mode=op.mode)
            want_version = op.version_override if (op.version_override is not None and is_prof) else slot.version
            if info["version"] != want_version:
                self.violate("C14", "I4-body", "header-version",
                             f"{where}: OFX header version {info['version']}, expected {want_version}")
            # no other instance's secrets anywhere
            for other in self.slots:
                if other is not slot and (other.password.encode() in c.raw_out):
                    self.violate("C14", "I5-credentials", "foreign-password",
                                 f"{where}: carries the password of slot {other.n}")
            # I6 -- cookies
            self.judge_cookies(c, rq, inst, where)
        # I2 counts ---------------------------------------------------------------------------------
        if op.kind == "profile":
            if n_main:
                self.violate("C14", "I2-count", "extra-request", f"{op.id}: profile operation sent {n_main} non-profile request(s)")
            if n_prof > 1 or (op.ok and n_prof != 1):
                self.violate("C14", "I2-count", "profile", f"{op.id}: profile operation sent {n_prof} profile requests (ok={op.ok})")
        else:
            if n_main > 1 or (op.ok and n_main != 1):
                self.violate("C14", "I2-count", "main-request",
                             f"{op.id}: {op.kind} sent its request {n_main} times (ok={op.ok}); exactly one POST expected")
            if n_prof > 1:
                self.violate("C14", "I2-count", "profile", f"{op.id}: {n_prof} profile requests for one operation")

    def asked_before(self, inst, conn):
        """did another operation on this instance (still running, so not judged yet: two tasks may share one
        instance) put a profile request on the wire before this connection was opened?"""
        mine = {o.id for o in self.ops if o.inst is inst}
        for c in self.net.conns:
            if c.id >= conn.id or c.op not in mine or not c.raw_out:
                continue
            rq = simnet.HttpRequest(c.raw_out) if c.request is None else c.request
            info = self.classify_body(rq.body)
            if info["ok"] and "PROFMSGSRQV1" in info["kinds"]:
                return True
        return False

    def judge_cookies(self, c, rq, inst, where):
        sent = []
        for h in rq.header_all("Cookie"):
            for part in h.split(";"):
                k, eq, v = part.strip().partition("=")
                if eq:
                    sent.append((k, v))
        host = c.host.lower()          # host names (and cookie domains) are case-insensitive
        allowed = inst.allowed.get(host, set())
        for k, v in sent:
            if k != "sid" or v not in allowed:
                owner = None
                for other in self.instances:
                    if other is not inst and any(v in s for s in other.allowed.values()):
                        owner = other.n
                self.violate("C14", "I6-cookies", "foreign-or-unknown",
                             f"{where}: sends cookie {k}={v} which no response to this instance from {host} set"
                             + (f" (it was set for instance {owner})" if owner is not None else ""),
                             leaked_from_other_instance=owner is not None)
        persist = inst.slot.persist_cookies
        need = inst.required.get(host) if not inst.shared else None
        if need is not None and persist in (None, True):
            if ("sid", need) not in sent:
                self.violate("C14", "I6-cookies", "not-replayed",
                             f"{where}: server {host} had set sid={need} on an earlier response to this instance; "
                             f"request carries {sent}")
            else:
                self.sim.count("probe.cookie_replayed")
                self.nontrivial = True
        # fold this connection's response into the model (after judging the request)
        resp = c.response
        if resp is not None and c.fault not in (F_RESET_AFTER, F_TIMEOUT_AFTER, F_HTTP500):
            for k, v in resp.headers:
                if k.lower() == "set-cookie":
                    val = v.split(";")[0].split("=", 1)[1]
                    inst.allowed.setdefault(host, set()).add(val)
                    if c.delivered:
                        inst.required[host] = val
                    else:
                        inst.required.pop(host, None)

    # -- the run ---------------------------------------------------------------------------------------
    def new_instance(self, slot):
        inst = Instance(len(self.instances), slot, self.make_client(slot))
        self.instances.append(inst)
        return inst

    def draw_op(self):
        ch = self.ch
        kind = ["statements", "profile", "accounts", "tax"][ch.weighted("op.kind", [5, 2, 2, 1])]
        if kind == "profile":
            mode = ["normal", "dryrun"][ch.weighted("op.mode", [3, 1])]
        else:
            mode = ["normal", "skip", "dryrun"][ch.weighted("op.mode", [4, 2, 2])]
        reqs = self.draw_requests() if kind == "statements" else []
        return kind, mode, reqs

    def run(self):
        ch = self.ch
        sim = self.sim
        concurrent = ch.flag("variant.concurrent", 0.3)
        n_fi = 1 + ch.pick("cfg.n_fi", 3)
        urls = self.draw_fi_urls(n_fi)
        for i in range(n_fi):
            fi = self.add_fi(i, ch.pick("fi.svc", 4), ch.flag("fi.cookies", 0.6),
                             ["v1u", "v1c"][ch.pick("fi.form", 2)], ch.flag("fi.pretty", 0.3),
                             msgsets=MSGSETS[ch.pick("fi.msgsets", len(MSGSETS))], url_index=urls[i])
            fi.behaviour_fn = self.behaviour
            fi.cookie_attrs = ch.flag("fi.cookie_attrs", 0.3)
            fi.closing = [("Y", "Y"), ("N", "Y"), ("Y", "N"), ("N", "N")][ch.weighted("fi.closingavail", [3, 1, 1, 1])]
            if "INV" in fi.msgsets and ("BANK" in fi.msgsets or "CC" in fi.msgsets) and ch.flag("fi.split_inv_url", 0.15):
                # investment statements served elsewhere: the profile advertises two different URLs
                scheme, host, port, target = peers.url_parts_q(fi.svc_url)
                fi.set_inv_url(self.net, f"{scheme}://{host}:{port}/invest{fi.index}")
                sim.count("probe.profiles_with_two_service_urls")
            fi.profiles.clear()
            fi.current = None
            fi.new_profile()
        self.faults_on = ch.flag("cfg.faults", 0.5)
        if self.faults_on:
            self.enabled_faults = [k for k in NET_FAULTS if ch.flag("cfg.fault." + k, 0.5)]
        n_slots = 1 + ch.pick("cfg.n_slots", 4)
        self.slots = []
        # in part of the runs every identity carries the same ORG/FID, so that institutions are told apart by
        # their URLs alone
        same_orgfid = ORGFID[ch.pick("id.same_orgfid.v", len(ORGFID))] if ch.flag("id.same_orgfid", 0.3) else None
        for j in range(n_slots):
            fi = self.fis[ch.pick("id.fi", n_fi)]
            org, fid = ORGFID[ch.pick("id.orgfid", len(ORGFID))]
            if same_orgfid is not None:
                org, fid = same_orgfid
            ver = VERSIONS[ch.pick("id.version", len(VERSIONS))]
            close = True if ver >= 200 else not ch.flag("id.unclosed", 0.4)
            ua = [None, "MoneyApp/4.2 (sim)", "X"][ch.pick("id.useragent", 3)]
            pc = [None, True, False][ch.weighted("id.persist", [3, 1, 1])]
            s = Ident(j, fi, org, fid, ver, ch.flag("id.pretty", 0.2), close, f"user{j}", f"pw{j}-s3cret!",
                      useragent=ua, persist_cookies=pc)
            self.slots.append(s)
            sim.log("config " + s.describe() + f" ua={ua} persist_cookies={pc}")
        for fi in self.fis:
            sim.log(f"config server {fi.name} profile-url={fi.prof_url} service-url={fi.svc_url} cookies={fi.cookies} msgsets={fi.msgsets}")
        self.net.fault_policy = self.fault_policy
        self.net.latency = lambda: 0.02
        self.idents = []
        if len({s.fi.name for s in self.slots}) < len(self.slots):
            self.nontrivial = True
        if not concurrent:
            live = {}
            n_ops = 1 + ch.pick("n_ops", 8)
            for k in range(n_ops):
                slot = self.slots[ch.pick("op.slot", n_slots)]
                if slot.n not in live or ch.flag("op.restart", 0.2):
                    if slot.n in live:
                        sim.count("fault.process.restart")
                        sim.log(f"restart: new client instance for slot {slot.n}")
                    live[slot.n] = self.new_instance(slot)
                if ch.flag("op.think", 0.2):
                    sim.advance([1.0, 3600.0, 86400.0 * 40, -3600.0][ch.pick("op.think.dt", 4)])
                kind, mode, reqs = self.draw_op()
                op = self.do_op(live[slot.n], kind, mode, reqs)
                self.judge_op(op)
                if ch.flag("op.repeat", 0.12):         # the very same call once more
                    op = self.do_op(live[slot.n], kind, mode, reqs)
                    self.judge_op(op)
        else:
            n_tasks = 2 + ch.pick("conc.tasks", 2)
            if ch.flag("conc.stalls", 0.35):
                sim.seam_stall_k = [6, 15, 3][ch.pick("conc.stalls.k", 3)]
                sim.hot_salt = ch.pick("conc.stalls.salt", 1 << 16)
            plans = []
            for t in range(n_tasks):
                if plans and ch.flag("conc.share_instance", 0.25):
                    # two tasks drive ONE client instance at the same time (what the profile scan does)
                    inst = plans[ch.pick("conc.share_of", len(plans))][0]
                    inst.shared = True
                    sim.count("probe.tasks_sharing_one_instance")
                else:
                    slot = self.slots[ch.pick("op.slot", n_slots)]
                    inst = self.new_instance(slot)
                ops = [self.draw_op() for _ in range(1 + ch.pick("conc.ops", 3))]
                plans.append((inst, ops))
            done = []

            def body(inst, ops):
                def fn():
                    for kind, mode, reqs in ops:
                        done.append(self.do_op(inst, kind, mode, reqs))
                return fn
            for t, (inst, ops) in enumerate(plans):
                sim.spawn(f"T{t}", body(inst, ops))
            sim.run_tasks()
            if sim.switches > n_tasks:
                self.nontrivial = True
            # an instance used by two tasks at once has no program order: everything any response set for it is
            # allowed on any of its requests, nothing in particular is required
            for inst in self.instances:
                if inst.shared:
                    for cc in self.net.conns:
                        opx = next((o for o in done if o.id == cc.op), None)
                        if opx is not None and opx.inst is inst and cc.response is not None:
                            for k, v in cc.response.headers:
                                if k.lower() == "set-cookie":
                                    inst.allowed.setdefault(cc.host.lower(), set()).add(v.split(";")[0].split("=", 1)[1])
            # judge per instance in its own program order (cookie model is per instance)
            seen_inst = []
            for inst, _ in plans:
                if inst in seen_inst:
                    continue
                seen_inst.append(inst)
                for op in done:
                    if op.inst is inst:
                        self.judge_op(op)
        # every connection belongs to some operation
        for c in self.net.conns:
            if c.op is None:
                self.violate("C14", "I2-count", "unattributed", f"connection c{c.id} to {c.host} outside any operation")
        if self.judged_conns == 0:
            self.nontrivial = False


def run(ch, index, tier):
    w = C14(ch, tier)
    sim = w.sim
    aborted = None
    try:
        w.run()
    except sched.Deadlock as e:
        w.violate("C14", "X-deadlock", "tasks", str(e))
        aborted = "deadlock"
    except sched.StepCap as e:
        w.violate("C14", "X-no-progress", "stepcap", str(e))
        aborted = "stepcap"
    stats = dict(sim.stats)
    stats["sched.switches"] = sim.switches
    stats["probe.connections_judged"] = w.judged_conns
    stats["probe.dry_runs"] = sum(1 for o in w.ops if o.mode == "dryrun")
    stats["probe.skip_profile_ops"] = sum(1 for o in w.ops if o.mode == "skip")
    stats["probe.ops_ok"] = sum(1 for o in w.ops if o.ok)
    stats["probe.ops_failed"] = sum(1 for o in w.ops if o.ok is False)
    return {
        "violations": w.violations,
        "digest": sim.digest(),
        "sched_digest": sim.sched_h.hexdigest() if sim.switches > 1 else None,
        "nontrivial": bool(w.nontrivial),
        "stats": stats,
        "sim_time_s": (sim.now_us - sched.EPOCH_US) / 1e6,
        "decoded": sim.decoded,
        "summary": f"ops={len(w.ops)} instances={len(w.instances)} conns={len(w.net.conns)} aborted={aborted}",
    }
