"""C08 - improperly nested or truncated markup is never silently accepted as a tree.

W-stream: a producer (the reference renderer) emits well-formed bodies; a faulty byte
channel truncates them at *every* byte, and drops / renames / transposes / duplicates end
tags, inserts stray text, stray end tags and second roots at *every* applicable
position (single faults enumerated per document; 2-3 fault sequences sampled).  A
reference stack machine classifies each faulted body; ill-formed => the real parser
must raise.  One end-to-end exchange per run: a simulated institution's close-delimited
response is cut by the network and what OFXClient returns is parsed.
"""
import io

from dst import sched, simfs, simnet, peers, refofx
from dst.simnet import F_CUT_CLOSE, F_NONE

prop = "C08"
name = "w_stream"
level = "fault_enumeration"
rule = ("one evaluation = one faulted body fed to TreeBuilder.feed/close and to OFXTree.parse; documents are drawn "
        "from seeded generic trees and realistic responses in three wire forms; per document every truncation point "
        "and every single token fault is enumerated; non-trivial = the reference stack machine classifies the faulted "
        "body ill-formed; distinct = distinct faulted texts (documents de-duplicated by digest across runs)")
components = {
    "real": ["ofxtools.Parser.TreeBuilder.feed/_feedmatch/_start/close", "ofxtools.Parser.OFXTree.parse/_read",
             "ofxtools.header.parse_header", "OFXClient.request_statements/download/post_request + urllib/http.client "
             "(end-to-end truncation)"],
    "stub": ["document producer (reference renderer)", "byte channel with enumerated faults", "SimNet/SimFI for the "
             "end-to-end exchange"],
}
assumptions = [
    "the reference classifier (dst/refofx.py: tokenizer + stack machine, 60 lines) is correct",
    "documents are sampled (seeded); faults per document are enumerated exhaustively for single faults only",
    "a body on which the parser returns None instead of raising is reported as accepted (it did not fail with an error)",
]

TAGS = ["OFX", "STMTRS", "BANKTRANLIST", "STMTTRN", "A", "B1", "INTU.BID", "X.Y", "LEDGERBAL", "INVPOSLIST",
        "SECLIST", "AGG", "SUB", "T_1",
        # long names (real ones stop at about 23 characters; vendor extensions need not): 31, 32, 33 and 43 characters
        "X234567890123456789012345678901", "X2345678901234567890123456789012", "X23456789012345678901234567890123",
        "INTU.VERY.LONG.VENDOR.EXTENSION.AGGREGATE01"]
LEAFS = ["CODE", "SEVERITY", "TRNAMT", "NAME", "MEMO", "DTPOSTED", "FITID", "L1", "V.W", "CURDEF",
         "L2345678901234567890123456789012", "INTU.VERY.LONG.VENDOR.EXTENSION.ELEMENT.1"]
DATA = ["0", "INFO", "-12.50", "ACME &amp; Co", "20200101120000.000[-5:EST]", "x y z", "1", "USD", "a&lt;b", "Z9",
        "<![CDATA[plain]]>", "<![CDATA[a <b> & c]]>", "caf\u00e9 &amp; th\u00e9" if False else "tab\there"]
WSS = ["", "", "\n", "  ", "\r\n\t", " \n "]


def plan(tier):
    if tier == "thorough":
        return dict(runs=8000, wall_budget=1500, per_run_timeout=300, selftest=12, shrink_evals=200, shrink_seconds=90)
    return dict(runs=64, wall_budget=200, per_run_timeout=240, selftest=4, shrink_evals=100, shrink_seconds=40)


# ---------------------------------------------------------------------------
# producer
# ---------------------------------------------------------------------------
def gen_tree(ch, depth=0):
    """(TAG, [children]) / (TAG, 'text')"""
    tag = TAGS[ch.pick("g.tag", len(TAGS))] if depth else "OFX"
    n = ch.pick("g.fan", 5) if depth < 4 else 0
    if depth == 0 and n == 0:
        n = 1
    kids = []
    for _ in range(n):
        if depth >= 1 and ch.pick("g.leaf", 3) or depth >= 4:
            kids.append((LEAFS[ch.pick("g.ltag", len(LEAFS))], DATA[ch.pick("g.data", len(DATA))]))
        else:
            kids.append(gen_tree(ch, depth + 1))
    return (tag, kids)


def tokens_of(doc, ch, form):
    """-> token list [[kind, value], ...]; form: v1u / v1c / v2 / mixed (per-leaf choice)"""
    toks = []
    # in part of the documents XML comments and processing instructions (inert, like white space) sit between the
    # tags - at least two of them, so that faults land between them
    inert = ch.flag("r.inert", 0.25)
    INERT = ["<!-- generated 2024-05-01 -->", "<!--x-->", "<?target some data?>", "<!-- two\n lines -->"]

    def ws():
        w = WSS[ch.pick("r.ws", len(WSS))]
        if w:
            toks.append(["ws", w])
        if inert and path and ch.flag("r.inert.here", 0.3):
            # (only inside the root: what follows the final end tag is not what the property's truncation clause is
            #  about, and the parser is free to ignore a cut-off comment there)
            toks.append(["ws", INERT[ch.pick("r.inert.kind", len(INERT))]])

    path = []

    def rec(node):
        tag, val = node
        toks.append(["open", tag])
        if isinstance(val, str):
            if ch.flag("r.cdata_markup", 0.06):
                # element data that *quotes markup* inside a CDATA section: it must stay inert however the body
                # is cut or damaged around it
                chain = "".join(f"</{t}>" for t in [tag] + path[::-1])
                val = ["<![CDATA[see " + chain + " end]]>",
                       "<![CDATA[<OFX><" + tag + ">1</" + tag + "></OFX>]]>",
                       "<![CDATA[</" + tag + "><" + tag + ">]]>"][ch.pick("r.cdata_markup.kind", 3)]
            toks.append(["text", val])
            close = form in ("v1c", "v2") or (form == "mixed" and ch.pick("r.close", 2))
            if close:
                toks.append(["close", tag])
            ws()
        else:
            ws()
            path.append(tag)
            for c in val:
                rec(c)
            path.pop()
            toks.append(["close", tag])
            ws()
    rec(doc)
    if inert and sum(1 for t in toks if t[0] == "ws" and t[1].startswith("<")) < 2:
        toks.insert(1, ["ws", INERT[0]])
        last = max(i for i, t in enumerate(toks) if t[0] == "close")
        toks.insert(last, ["ws", INERT[1]])
    return toks


def render(toks):
    out = []
    for k, v in toks:
        if k == "open":
            out.append(f"<{v}>")
        elif k == "close":
            out.append(f"</{v}>")
        else:
            out.append(v)
    return "".join(out)


def realistic(ch):
    import datetime
    now = datetime.datetime(2024, 5, 1, 12, 0, 0, tzinfo=datetime.timezone.utc)
    which = ch.pick("d.kind", 4)
    if which == 0:      # bank statement with n transactions (positions/balances optional at the end)
        trns = [("STMTTRN", [("TRNTYPE", "CHECK"), ("DTPOSTED", "20200115"), ("TRNAMT", f"-{i}.50"), ("FITID", f"F{i}"),
                             ("NAME", "ACME &amp; Co")]) for i in range(1 + ch.pick("d.ntrn", 4))]
        body = ("OFX", [peers.sonrs_doc(now, "ORG", "1"),
                        ("BANKMSGSRSV1", [("STMTTRNRS", [("TRNUID", "1"), peers.status_doc(0), ("STMTRS", [
                            ("CURDEF", "USD"),
                            ("BANKACCTFROM", [("BANKID", "1"), ("ACCTID", "2"), ("ACCTTYPE", "CHECKING")]),
                            ("BANKTRANLIST", [("DTSTART", "20200101"), ("DTEND", "20200201")] + trns),
                            ("LEDGERBAL", [("BALAMT", "100.00"), ("DTASOF", "20200201")]),
                            ("AVAILBAL", [("BALAMT", "90.00"), ("DTASOF", "20200201")])])])])])
    elif which == 1:    # profile
        p = peers.Profile("P0@X", peers.BASE_DATE, "https://svc.x.test/ofx", "X", 0)
        body = ("OFX", [peers.sonrs_doc(now), ("PROFMSGSRSV1", [("PROFTRNRS", [
            ("TRNUID", "7"), peers.status_doc(0),
            peers.profrs_doc(p, "https://x.test/prof", True, [("BANK",), peers.ALL_MSGSETS][ch.pick("d.msgsets", 2)])])])])
    elif which == 2:    # investment statement
        body = ("OFX", [peers.sonrs_doc(now), ("INVSTMTMSGSRSV1", [("INVSTMTTRNRS", [
            ("TRNUID", "3"), peers.status_doc(0), ("INVSTMTRS", [
                ("DTASOF", "20200201"), ("CURDEF", "USD"),
                ("INVACCTFROM", [("BROKERID", "b.test"), ("ACCTID", "9")]),
                ("INVTRANLIST", [("DTSTART", "20200101"), ("DTEND", "20200201"),
                                 ("BUYSTOCK", [("INVBUY", [("INVTRAN", [("FITID", "1"), ("DTTRADE", "20200105")]),
                                                           ("SECID", [("UNIQUEID", "123456789"), ("UNIQUEIDTYPE", "CUSIP")]),
                                                           ("UNITS", "10"), ("UNITPRICE", "1.5"), ("TOTAL", "-15"),
                                                           ("SUBACCTSEC", "CASH"), ("SUBACCTFUND", "CASH")]),
                                               ("BUYTYPE", "BUY")])]),
                ("INVPOSLIST", [("POSSTOCK", [("INVPOS", [("SECID", [("UNIQUEID", "123456789"), ("UNIQUEIDTYPE", "CUSIP")]),
                                                          ("HELDINACCT", "CASH"), ("POSTYPE", "LONG"), ("UNITS", "10"),
                                                          ("UNITPRICE", "1.5"), ("MKTVAL", "15"), ("DTPRICEASOF", "20200201")])])]),
                ("INVBAL", [("AVAILCASH", "1"), ("MARGINBALANCE", "0"), ("SHORTBALANCE", "0")])])])]),
            ("SECLISTMSGSRSV1", [("SECLIST", [("STOCKINFO", [("SECINFO", [
                ("SECID", [("UNIQUEID", "123456789"), ("UNIQUEIDTYPE", "CUSIP")]), ("SECNAME", "ACME")])])])])])
    else:               # account info
        body = ("OFX", [peers.sonrs_doc(now), ("SIGNUPMSGSRSV1", [("ACCTINFOTRNRS", [
            ("TRNUID", "5"), peers.status_doc(0), ("ACCTINFORS", [("DTACCTUP", "20200101")] + [
                ("ACCTINFO", [("BANKACCTINFO", [("BANKACCTFROM", [("BANKID", "1"), ("ACCTID", str(i)), ("ACCTTYPE", "SAVINGS")]),
                                                 ("SUPTXDL", "Y"), ("XFERSRC", "N"), ("XFERDEST", "N"), ("SVCSTATUS", "ACTIVE")])])
                for i in range(1 + ch.pick("d.nacct", 3))])])])])
    return body


# ---------------------------------------------------------------------------
# faults over token lists / texts
# ---------------------------------------------------------------------------
def single_faults(toks):
    """yield (kind, description, faulted_text) for every single token fault"""
    idx = [i for i, t in enumerate(toks) if t[0] != "ws"]
    names = []
    for t in toks:
        if t[0] in ("open", "close") and t[1] not in names:
            names.append(t[1])
    for i, t in enumerate(toks):
        if t[0] != "close":
            continue
        yield ("drop-end", f"drop </{t[1]}> (token {i})", render(toks[:i] + toks[i + 1:]))
        v = t[1]
        flipped = v[:-1] + ("B" if v[-1] != "B" else "C")
        yield ("rename-end", f"</{v}> -> </{flipped}> (token {i})", render(toks[:i] + [["close", flipped]] + toks[i + 1:]))
        # near misses: names that are string relatives of the right one (a proper suffix or prefix of it, or the name
        # with a letter more at either end - OFX is full of such pairs: STMTRS/CCSTMTRS, ACCTFROM/CCACCTFROM,
        # TRANLIST/BANKTRANLIST, STMTTRN/STMTTRNRS), which a comparison that is not anchored at both ends lets through
        near = [v[1:], v[:-1], "C" + v, v + "S"] + ([v[2:]] if len(v) > 3 else [])
        for nm in near:
            if nm and nm != v and nm != flipped:
                yield ("rename-end", f"</{v}> -> </{nm}> (near miss, token {i})", render(toks[:i] + [["close", nm]] + toks[i + 1:]))
        other = next((n for n in names if n != v), None)
        if other is not None:
            yield ("rename-end", f"</{v}> -> </{other}> (token {i})", render(toks[:i] + [["close", other]] + toks[i + 1:]))
        if i and toks[i - 1][0] != "text":
            # an *aggregate's* end tag with white space inside the brackets where no markup language allows it:
            # '< /A>' and '</ A>' are not end tags, so the aggregate stays open.  (Not applied to the optional end
            # tag of a data element: what a parser makes of such debris after a value is not the property's subject.)
            yield ("rename-end", f"</{v}> -> < /{v}> (token {i})", render(toks[:i] + [["text", f"< /{v}>"]] + toks[i + 1:]))
            yield ("rename-end", f"</{v}> -> </ {v}> (token {i})", render(toks[:i] + [["text", f"</ {v}>"]] + toks[i + 1:]))
        yield ("dup-end", f"duplicate </{v}> (token {i})", render(toks[:i + 1] + [["close", v]] + toks[i + 1:]))
        yield ("stray-text", f"text after </{v}> (token {i})", render(toks[:i + 1] + [["text", "junk"]] + toks[i + 1:]))
    for a, b in zip(idx, idx[1:]):
        if toks[a][0] == "close" or toks[b][0] == "close":
            sw = list(toks)
            sw[a], sw[b] = sw[b], sw[a]
            yield ("transpose", f"swap tokens {a},{b} ({toks[a][0]} {toks[a][1][:12]} / {toks[b][0]} {toks[b][1][:12]})", render(sw))
    gaps = list(range(1, len(toks) + 1))
    for g in gaps:
        if toks[g - 1][0] == "text":
            continue       # '<A>1</ZZZ>' - covered by rename; keep gaps at tag boundaries
        yield ("stray-end", f"stray </ZZZ> at token gap {g}", render(toks[:g] + [["close", "ZZZ"]] + toks[g:]))
        nm = names[g % len(names)]
        yield ("stray-end", f"stray </{nm}> at token gap {g}", render(toks[:g] + [["close", nm]] + toks[g:]))
    yield ("second-root", "second top-level element appended", render(toks + [["open", "OFX"], ["close", "OFX"]]))
    yield ("second-root", "second top-level data element appended", render(toks + [["open", "EXTRA"], ["text", "1"]]))
    yield ("second-root", "top-level element prepended", render([["open", "PRE"], ["close", "PRE"]] + toks))


def multi_fault(ch, toks):
    toks = [list(t) for t in toks]
    desc = []
    for _ in range(2 + ch.pick("m.n", 2)):
        closes = [i for i, t in enumerate(toks) if t[0] == "close"]
        if not closes:
            break
        i = closes[ch.pick("m.pos", len(closes))]
        k = ch.pick("m.kind", 5)
        if k == 0:
            desc.append(f"drop </{toks[i][1]}>")
            del toks[i]
        elif k == 1:
            desc.append(f"rename </{toks[i][1]}>")
            toks[i][1] = toks[i][1] + "X"
        elif k == 2:
            desc.append(f"dup </{toks[i][1]}>")
            toks.insert(i, list(toks[i]))
        elif k == 3:
            desc.append(f"text after </{toks[i][1]}>")
            toks.insert(i + 1, ["text", "junk"])
        else:
            j = closes[ch.pick("m.pos2", len(closes))]
            desc.append(f"swap </{toks[i][1]}> and </{toks[j][1]}>")
            toks[i], toks[j] = toks[j], toks[i]
    return "+".join(desc), render(toks)


def ref_wellformed(text):
    try:
        refofx.parse_body_strict(text)
        return True
    except refofx.RefError:
        return False


V1HDR = ("OFXHEADER:100\r\nDATA:OFXSGML\r\nVERSION:102\r\nSECURITY:NONE\r\nENCODING:USASCII\r\nCHARSET:1252\r\n"
         "COMPRESSION:NONE\r\nOLDFILEUID:NONE\r\nNEWFILEUID:NONE\r\n\r\n")
V2HDR = ('<?xml version="1.0" encoding="UTF-8" standalone="no"?>\r\n'
         '<?OFX OFXHEADER="200" VERSION="203" SECURITY="NONE" OLDFILEUID="NONE" NEWFILEUID="NONE"?>\r\n')


V2HDR_NOBREAK = ('<?xml version="1.0" encoding="UTF-8" standalone="no"?>'
                 '<?OFX OFXHEADER="200" VERSION="203" SECURITY="NONE" OLDFILEUID="NONE" NEWFILEUID="NONE"?>')
V1HDR_NOBREAK = ("OFXHEADER:100DATA:OFXSGMLVERSION:102SECURITY:NONEENCODING:USASCIICHARSET:1252"
                 "COMPRESSION:NONEOLDFILEUID:NONENEWFILEUID:NONE")


class Stream:
    def __init__(self, ch):
        self.ch = ch
        self.sim = sched.Sim(ch)
        sched.CURRENT = self.sim
        simfs.mount(simfs.SimFS(None))
        self.violations = []
        self.vkeys = set()
        self.evals = 0
        self.nontrivial = set()
        self.benign = 0
        self.rejected_wellformed = 0
        self.kind_counts = {}

    def violate(self, kind, api, message, **facts):
        key = f"C08/accepts/{kind}"
        self.sim.log(f"VIOLATION {key} via {api}: {message[:300]}")
        if key in self.vkeys:
            return
        self.vkeys.add(key)
        facts["api"] = api
        self.violations.append({"key": key, "invariant": "accepts", "message": message, "facts": facts})

    def feed_both(self, text, hdr):
        """-> (accepted_by_treebuilder, accepted_by_ofxtree) ; accepted = returned without raising"""
        from ofxtools.Parser import TreeBuilder, OFXTree
        res = []
        try:
            b = TreeBuilder()
            b.feed(text)
            root = b.close()
            res.append(("tree" if root is not None else "none"))
        except Exception:
            res.append(None)
        try:
            t = OFXTree()
            root = t.parse(io.BytesIO((hdr + text).encode("ascii")))
            res.append(("tree" if root is not None else "none"))
        except Exception:
            res.append(None)
        return res

    def feed_variants(self, text, hdr):
        """the other ways a body reaches the tree builder: a file name instead of a stream, the other header
        kind, blank lines around header and body, an explicitly supplied TreeBuilder"""
        from ofxtools.Parser import TreeBuilder, OFXTree
        out = []
        other = V1HDR if hdr is V2HDR else V2HDR

        def attempt(name, fn):
            try:
                root = fn()
                out.append((name, "tree" if root is not None else "none"))
            except Exception:
                out.append((name, None))
        data = (hdr + text).encode("ascii")
        fs = simfs.FS
        fs.write_bytes(simfs.ROOT + "/in/doc.ofx", data)
        attempt("OFXTree.parse(file name)", lambda: OFXTree().parse(simfs.ROOT + "/in/doc.ofx"))
        attempt("OFXTree.parse(other header kind)", lambda: OFXTree().parse(io.BytesIO((other + text).encode("ascii"))))
        attempt("OFXTree.parse(blank lines around)", lambda: OFXTree().parse(io.BytesIO(b"\r\n\r\n" + hdr.encode() + b"\r\n" + text.encode("ascii") + b"\r\n  \r\n")))
        attempt("OFXTree.parse(parser=TreeBuilder())", lambda: OFXTree().parse(io.BytesIO(data), parser=TreeBuilder()))
        # header layouts without any line break (both are legal), and a whole second file glued on (a download
        # that was appended to an earlier one): the glued-on document is a second top-level element
        attempt("OFXTree.parse(v2 header, no line breaks)", lambda: OFXTree().parse(io.BytesIO((V2HDR_NOBREAK + text).encode("ascii"))))
        attempt("OFXTree.parse(v1 header, no line breaks)", lambda: OFXTree().parse(io.BytesIO((V1HDR_NOBREAK + text).encode("ascii"))))
        glued = V2HDR_NOBREAK + text.strip() + V2HDR_NOBREAK + "<OFX><SIGNONMSGSRSV1></SIGNONMSGSRSV1></OFX>"
        attempt("OFXTree.parse(second file glued on, one line)", lambda: OFXTree().parse(io.BytesIO(glued.replace("\r", "").replace("\n", " ").encode("ascii"))))
        self.sim.count("probe.entry_point_variants", len(out))
        return out

    def judge(self, kind, desc, text, hdr, form):
        import hashlib
        self.evals += 1
        self.kind_counts[kind] = self.kind_counts.get(kind, 0) + 1
        wf = ref_wellformed(text)
        r = self.feed_both(text, hdr)
        if wf:
            self.benign += 1
            if r[0] is None or r[1] is None:
                self.rejected_wellformed += 1
            return
        self.nontrivial.add(hashlib.sha256(text.encode()).digest()[:8])
        extra = []
        if self.evals % 5 == 0:
            extra = self.feed_variants(text, hdr)
        for api, got in [("TreeBuilder.feed+close", r[0]), ("OFXTree.parse", r[1])] + extra:
            if got is not None:
                snippet = text if len(text) <= 400 else text[:180] + " ... " + text[-180:]
                what = "returned an element tree" if got == "tree" else "returned None without an error"
                self.violate(kind, api, f"{api} {what} for a body that is not properly nested and closed "
                                        f"({desc}; form {form}): {snippet!r}", fault=desc, form=form,
                             text=text if len(text) <= 3000 else None)

    def run(self, tier):
        ch = self.ch
        sim = self.sim
        generic = ch.pick("doc.generic", 2) == 0
        form = ["v1u", "v1c", "v2", "mixed"][ch.pick("doc.form", 4)]
        doc = gen_tree(ch) if generic else realistic(ch)
        toks = tokens_of(doc, ch, form)
        text = render(toks)
        hdr = V2HDR if form == "v2" else V1HDR
        import hashlib
        self.doc_digest = hashlib.sha256((hdr + text).encode()).hexdigest()[:16]
        sim.log(f"document ({'generic' if generic else 'realistic'}, {form}, {len(text)} bytes, {len(toks)} tokens) digest {self.doc_digest}")
        assert ref_wellformed(text), "producer emitted an ill-formed document"
        r = self.feed_both(text, hdr)
        if r[0] is None or r[1] is None:
            self.rejected_wellformed += 1
            sim.log("note: the parser rejects the un-faulted document")
        # every truncation point
        for k in range(1, len(text)):
            self.judge("truncate", f"EOF after byte {k} of {len(text)}", text[:k], hdr, form)
        sim.count("fault.stream.truncate", len(text) - 1)
        # every single token fault
        for kind, desc, ftext in single_faults(toks):
            self.judge(kind, desc, ftext, hdr, form)
            sim.count("fault.stream." + kind)
        # sampled sequences of 2-3 faults
        for _ in range(12 if tier == "quick" else 40):
            desc, ftext = multi_fault(ch, toks)
            self.judge("multi", desc, ftext, hdr, form)
            sim.count("fault.stream.multi")
        self.e2e()

    def e2e(self):
        """a close-delimited statement response cut by the network, through the real client"""
        ch = self.ch
        sim = self.sim
        from ofxtools.Client import OFXClient, StmtRq
        from ofxtools.Parser import OFXTree
        fs = simfs.mount(simfs.SimFS(sim))
        net = simnet.mount(simnet.SimNet(sim))
        form = ["v1u", "v1c"][ch.pick("e2e.form", 2)]
        fi = peers.SimFI(sim, net, "E", "https://ofx.e2e.test/ofx", "https://ofx.e2e.test/ofx", form=form)
        fi.new_profile()
        ver = [102, 203, 160][ch.pick("e2e.version", 3)]
        cut = (1 + ch.pick("e2e.cut", 199)) / 200.0
        net.fault_policy = lambda conn: (F_CUT_CLOSE, cut)
        c = OFXClient("https://ofx.e2e.test/ofx", userid="u", version=ver, bankid="1", org="O", fid="1")
        net.current_op = "e2e"
        try:
            resp = c.request_statements("pw", StmtRq(acctid="1", accttype="CHECKING"), skip_profile=True)
            data = resp.read()
        except Exception as e:       # noqa - the transport may legitimately fail
            sim.log(f"e2e: client raised {type(e).__name__}")
            return
        sim.count("fault.stream.e2e-cut")
        self.evals += 1
        try:
            hdr, body = refofx.split_file(data)
            wf = ref_wellformed(body)
        except refofx.RefError:
            wf = False
        if wf:
            self.benign += 1
            return
        import hashlib
        self.nontrivial.add(hashlib.sha256(data).digest()[:8])
        try:
            t = OFXTree()
            root = t.parse(io.BytesIO(data))
        except Exception:
            return
        self.violate("truncate-e2e", "OFXClient.request_statements -> OFXTree.parse",
                     f"the network cut the institution's response after {len(data)} body bytes (fraction {cut}); "
                     f"OFXClient returned it and OFXTree.parse accepted it: ...{data[-120:]!r}", cut=cut, version=ver)


def run(ch, index, tier):
    w = Stream(ch)
    w.run(tier)
    sim = w.sim
    stats = dict(sim.stats)
    stats["evaluations"] = w.evals
    stats["probe.benign_faults_wellformed_by_reference"] = w.benign
    stats["probe.wellformed_rejected_by_parser"] = w.rejected_wellformed
    return {
        "violations": w.violations,
        "digest": sim.digest(),
        "sched_digest": None,
        "nontrivial": bool(w.nontrivial),
        "stats": stats,
        "sim_time_s": 0.0,
        "decoded": sim.decoded,
        "summary": f"doc={w.doc_digest} faulted_parses={w.evals} illformed={len(w.nontrivial)} benign={w.benign}",
        "doc_digest": w.doc_digest,
        "n_nontrivial": len(w.nontrivial),
        "n_evals": w.evals,
    }


def extra_coverage(results):
    seen = set()
    ev = nt = 0
    for r in results:
        d = r.get("doc_digest")
        if d in seen:
            continue
        seen.add(d)
        ev += r.get("n_evals", 0)
        nt += r.get("n_nontrivial", 0)
    return {"evaluations": ev, "distinct_nontrivial": nt, "distinct_documents": len(seen),
            "exhaustive": False,
            "explanation": "single faults are enumerated exhaustively per document; documents are sampled"}
