"""C15 - the cached FI profile is always whole, the newest, and from the right server.

Workloads: (0) histories of request_profile calls over 1-3 identities against 1-2
servers with drawn server behaviours, restarts and clock jumps; (1) 2-4 concurrent
tasks calling request_profile (seam-level pre-emption); (2) the real
ofxget._scan_profile with its 44 jobs on a simulated executor.  Every mutation of the
data directory is a crash point: the disk is snapshotted (also with a torn prefix of
the write in flight) and a restarted client is run on the snapshot ("probe").
"""
import datetime

from dst import sched, simfs, simnet, peers, refofx, simexec
from dst.simnet import (F_NONE, F_REFUSED, F_RESET_BEFORE, F_RESET_AFTER, F_TIMEOUT, F_TIMEOUT_AFTER,
                        F_HTTP500, F_SHORT_LEN, F_CUT_CLOSE, F_GARBAGE)
from .w_client import World, Ident, DATA_DIR, ABSENT_MAX, V1, V2, state_str, clean_exc, timeline_exact

UTC = datetime.timezone.utc

prop = "C15"
name = "w_client/c15"
level = "exploration"
rule = ("one evaluation = one simulated run (seeded history / schedule / fault sequence with crash probes at "
        "every cache mutation); a run is non-trivial if a fault fired, a crash probe ran on a changed disk, "
        "or tasks interleaved; distinct = distinct event-log digests among those")
components = {
    "real": ["ofxtools.Client.OFXClient (request_profile, _request_profile, download, post_request, serialize, signon)",
             "ofxtools.Parser / header / models", "urllib.request", "http.client", "http.cookiejar",
             "ofxtools.scripts.ofxget._scan_profile/_queue_scans/_read_scan_response/collate_scan_results (scan variant)",
             "io.BufferedWriter/BufferedReader/TextIOWrapper over SimFS", "pathlib"],
    "stub": ["sockets (SimNet)", "TLS context", "financial institutions (SimFI on the reference OFX writer)",
             "disk (SimFS)", "clock", "uuid4", "thread scheduler (baton passing)",
             "concurrent.futures.ThreadPoolExecutor/as_completed (SimExecutor)"],
}
assumptions = [
    "crash = process death: completed write syscalls survive, Python buffers are lost, the syscall in flight may be torn; "
    "no power-loss reordering, no fsync semantics",
    "pre-emption at simulator seams only (file, network, lock, executor events), not between arbitrary bytecodes",
    "single process: multi-process file locking is not modelled",
    "the reference OFX reader/writer (dst/refofx.py) is correct",
    "requests-library branch of post_request not exercised (library absent)",
]

BEH_SAFE = [peers.B_SPEC, peers.B_NEWER, peers.B_SAME]
BEH_ALL = [peers.B_SPEC, peers.B_NEWER, peers.B_SAME, peers.B_UPTODATE, peers.B_OLDER, peers.B_ERROR,
           peers.B_GARBAGE_NOPROF, peers.B_GARBAGE_NOPROFRS, peers.B_GARBAGE_TEXT, peers.B_GARBAGE_NEST]
BEH_W_ALL = [6, 4, 2, 2, 2, 2, 1, 1, 1, 1]
NET_FAULTS = [F_REFUSED, F_RESET_BEFORE, F_RESET_AFTER, F_TIMEOUT, F_TIMEOUT_AFTER, F_HTTP500, F_SHORT_LEN,
              F_CUT_CLOSE, F_GARBAGE]
ORGFID = [(None, None), ("ORGX", "1"), ("ORGX", "2"), ("Org & Co", "1")]
# institutions that share one URL (tenants of one processor) and differ only in ORG / FID
TENANTS = [[("CU", "4410"), ("WEST/CU", "4410")], [("CU", "4410"), ("cu", "4410")], [("CU", "4410"), ("CU", "4411")],
           [("WEST/CU", "4410"), ("EAST/CU", "4410")]]
VERSIONS = [203, 102, 220, 103, 151, 160, 200, 211]


def plan(tier):
    if tier == "thorough":
        return dict(runs=24000, wall_budget=1500, per_run_timeout=300, selftest=24, shrink_evals=300,
                    shrink_seconds=120)
    return dict(runs=420, wall_budget=240, per_run_timeout=240, selftest=6, shrink_evals=120, shrink_seconds=45)


class Op:
    def __init__(self, n, ident, label):
        self.n = n
        self.id = f"op{n}"
        self.ident = ident
        self.label = label
        self.t_invoke = None
        self.t_return = None
        self.ok = None
        self.data = None
        self.exc = None
        self.skipped_probes = 0
        self.implicit = False


class C15(World):
    def __init__(self, ch, tier):
        super().__init__(ch)
        self.tier = tier
        self.ops = []
        self.faults_on = False
        self.enabled_faults = []
        self.behs = BEH_SAFE
        self.beh_w = [6, 4, 2]
        self.force_beh = None
        self.nontrivial = False
        self.beh_seq = []
        self.crash_plan = None
        self.crash_seen = 0
        self.crashed = None
        self.outage = {}
        self.partitions = False

    # -- policies ------------------------------------------------------------------
    def behaviour(self, fi, seen):
        if self.force_beh is not None:
            return self.force_beh
        b = self.behs[self.ch.weighted("srv.beh", self.beh_w)]
        self.sim.count("fault.peer." + b)
        self.beh_seq.append(b)
        if b != peers.B_SPEC:
            self.nontrivial = True
        self.sim.log(f"server {fi.name} answers PROFRQ(dt={seen.dtprofup.strftime('%Y%m%d%H') if seen.dtprofup else None}) with behaviour {b}")
        return b

    def fault_policy(self, conn):
        if not self.faults_on or not self.enabled_faults or self.force_beh is not None:
            return (F_NONE, None)
        # partitions: a host may be unreachable for a few connections in a row, then heal
        left = self.outage.get(conn.host, 0)
        if left > 0:
            self.outage[conn.host] = left - 1
            self.sim.count("fault.net.partition-connection")
            self.nontrivial = True
            return ([F_REFUSED, F_TIMEOUT][left % 2], None)
        if self.partitions and self.ch.flag("net.partition", 0.04):
            self.outage[conn.host] = 1 + self.ch.pick("net.partition.len", 4)
            self.sim.count("fault.net.partition-start")
        if not self.ch.flag("net.fault", 0.12):
            return (F_NONE, None)
        kind = self.enabled_faults[self.ch.pick("net.kind", len(self.enabled_faults))]
        cut = None
        if kind in (F_SHORT_LEN, F_CUT_CLOSE):
            cut = (1 + self.ch.pick("net.cut", 39)) / 40.0
        self.nontrivial = True
        return (kind, cut)

    # -- disk faults -------------------------------------------------------------------
    def disk_fault(self, op, path):
        import errno
        if not path.startswith(DATA_DIR) or self.force_beh is not None or self.in_mutation_probe:
            return
        kind = {"write": "enospc-on-write", "replace": "eio-on-replace", "open": "eio-on-create",
                "mkdir": "eacces-on-mkdir"}.get(op)
        if kind not in self.disk_faults:
            return
        if op == "open" and self.fs.exists(path):
            return                      # only creation of new files fails
        if not self.ch.flag("disk.fault." + kind, 0.15):
            return
        self.sim.count("fault.disk." + kind)
        self.nontrivial = True
        self.sim.log(f"disk fault: {kind} on {path.rsplit('/', 1)[-1]}")
        if kind == "enospc-on-write":
            raise OSError(errno.ENOSPC, "No space left on device", path)
        if kind == "eacces-on-mkdir":
            raise PermissionError(errno.EACCES, "Permission denied", path)
        raise OSError(errno.EIO, "Input/output error", path)

    def short_write(self, path, n):
        if not path.startswith(DATA_DIR) or self.force_beh is not None:
            return None
        if not self.ch.flag("disk.short", 0.3):
            return None
        self.sim.count("fault.disk.short-write")
        return 1 + self.ch.pick("disk.short.k", n - 1)

    # -- crash points ------------------------------------------------------------------
    def check_states(self, states, phase, why):
        if states is None:
            return
        for ident in self.uidents:
            st = states[ident.key]
            if st[0] == "fail":
                self.violate("C15", "J4-cache-unusable", phase,
                             f"{why}: a restarted client of {ident.key} cannot complete a profile request: {st[1]}",
                             identity=ident.key, phase=phase)
            elif st[0] == "bad" and st[1].startswith("asks the server with the 'no profile' date"):
                self.violate("C15", "J1-asked-date", "holds-profile-but-asks-as-if-absent",
                             f"{why}: a restarted client of {ident.key} {st[1]}", identity=ident.key)
            elif st[0] == "bad":
                self.violate("C15", "J4-cache-not-whole", phase,
                             f"{why}: a restarted client of {ident.key} gets back {st[1]}",
                             identity=ident.key, phase=phase)
            elif st[0] == "profile" and st[3] != ident.fi.name:
                self.violate("C15", "J6-foreign-profile", "cached",
                             f"{why}: client configured for {ident.url} (server {ident.fi.name}) holds profile {st[1]} of server {st[3]}",
                             identity=ident.key, holds=st[1])

    def on_mutation(self, kind, path, info):
        if not path.startswith(DATA_DIR) or self.in_mutation_probe:
            return
        self.in_mutation_probe = True
        try:
            writers = self.fs.open_writers.get(path, 0)
            conc = writers >= 2 or (kind == "open-trunc" and writers >= 2)
            phase = ("two-writers-" if self.fs.max_concurrent_writers >= 2 else "crash-") + "after-" + kind
            self.sim.count("probe.crashpoint." + kind)
            if self.fs.max_concurrent_writers >= 2:
                self.sim.count("probe.two_writers_open_simultaneously")
            base = path.rsplit("/", 1)[-1]
            states = self.probe_all(f"after {kind} {base}")
            if states is not None:
                self.nontrivial = True
            self.check_states(states, phase, f"crash point after {kind} of {base}")
        finally:
            self.in_mutation_probe = False
        plan = self.crash_plan
        if plan is not None and self.sim.is_task() and kind not in ("mkdir",):
            self.crash_seen += 1
            if not plan["torn"] and self.crash_seen > plan["at"]:
                self.real_crash(f"right after {kind} of {base}")

    def real_crash(self, where):
        """kill the process for real at this instant: the running task(s) never continue"""
        self.crash_plan = None
        self.crashed = where
        self.sim.log(f"process killed {where}")
        self.sim.abandon_others()
        self.sim.abandon_current()

    def on_torn(self, path, node, pos, data):
        if not path.startswith(DATA_DIR) or self.in_mutation_probe or len(data) < 2:
            return
        if self.probes_done >= self.probe_budget and self.crash_plan is None:
            return
        self.in_mutation_probe = True
        try:
            k = 1 + self.ch.pick("torn.prefix", len(data) - 1)
            idmap = {}
            root = self.fs.root.clone(idmap)
            n2 = idmap.get(id(node))
            if n2 is None:
                return              # the file is no longer linked under /simfs (unlinked while open)
            if pos > len(n2.data):
                n2.data.extend(b"\0" * (pos - len(n2.data)))
            n2.data[pos:pos + k] = data[:k]
            self.sim.count("fault.disk.torn_write")
            self.sim.count("probe.crashpoint.torn")
            self.sim.log(f"crash probe: write of {len(data)} bytes torn after {k}")
            states = self.probe_all("torn", root=root)
            phase = ("two-writers-" if self.fs.max_concurrent_writers >= 2 else "crash-") + "torn-write"
            self.check_states(states, phase, f"crash during write ({k}/{len(data)} bytes reached the disk)")
            self.nontrivial = True
        finally:
            self.in_mutation_probe = False
        plan = self.crash_plan
        if plan is not None and plan["torn"] and self.sim.is_task() and self.crash_seen >= plan["at"]:
            if pos > len(node.data):
                node.data.extend(b"\0" * (pos - len(node.data)))
            node.data[pos:pos + k] = data[:k]
            self.real_crash(f"inside a write: {k} of {len(data)} bytes reached the disk")

    # -- one call ------------------------------------------------------------------------
    def do_call(self, client, ident, label, over):
        op = Op(len(self.ops), ident, label)
        self.ops.append(op)
        sim = self.sim
        if sim.is_task():
            self.net.op_of_task[sim.cur.name] = op.id
        else:
            self.net.current_op = op.id
        skipped0 = self.probes_skipped
        op.t_invoke = sim.log(f"{op.id} invoke request_profile {ident.key} {label} {over if over else ''}")
        try:
            if label.startswith("implicit"):
                # the profile machinery as other requests use it: a statement / account-info request first looks
                # the service URL up in the (cached or refreshed) profile
                from ofxtools.Client import StmtRq
                op.implicit = True
                if label.endswith("accounts"):
                    out = client.request_accounts(ident.password, datetime.datetime(2020, 1, 1, tzinfo=UTC))
                else:
                    out = client.request_statements(ident.password, StmtRq(acctid="1", accttype="CHECKING"))
                out.read()
                op.data = None
                # what matters here is the profile step: did it go through?
                op.ok = True
            else:
                out = client.request_profile(**over)
                op.data = out.read()
                op.ok = True
        except (sched.Deadlock, sched.StepCap):
            raise
        except Exception as e:         # noqa - a failing call is a legal outcome
            op.ok = False
            op.exc = clean_exc(e, 100)
        op.t_return = sim.log(f"{op.id} return " + (("ok %d bytes" % len(op.data) if op.data is not None else "ok") if op.ok else "raised " + op.exc))
        op.skipped_probes = self.probes_skipped - skipped0
        if not sim.is_task():
            self.net.current_op = None
        return op

    # -- oracle over one finished op -------------------------------------------------------
    def states_between(self, key, a, b):
        tl = self.timeline.get(key, [])
        out = []
        last = None
        for ev, st, why in tl:
            if ev <= a:
                last = st
            elif ev <= b:
                out.append(st)
        if last is not None:
            out.insert(0, last)
        return out

    def judge(self, op, overlapping):
        ident = op.ident
        fi = ident.fi
        # what did the servers see for this op?
        seen = []
        for f in self.fis:
            for s in f.seen:
                if s.conn.op == op.id and s.ok and "PROFMSGSRQV1" in s.kinds:
                    seen.append((f, s))
        exact = timeline_exact(self, op.t_invoke, op.t_return)
        # J1 ----------------------------------------------------------------------------
        for f, s in seen:
            if f is not fi:
                continue
            sts = self.states_between(ident.key, op.t_invoke, s.conn.ev_send)
            if not exact or any(st[0] in ("fail", "bad") for st in sts) or not sts:
                continue
            okd = False
            for st in sts:
                if st[0] == "absent" and (s.dtprofup is not None and s.dtprofup < ABSENT_MAX):
                    okd = True
                elif st[0] == "profile" and s.dtprofup == st[2]:
                    okd = True
            if not okd:
                self.violate("C15", "J1-asked-date", "mismatch",
                             f"{op.id}: PROFRQ carried DTPROFUP={s.dtprofup} but the cache held {[state_str(x) for x in sts]}",
                             identity=ident.key)
        # J2 ----------------------------------------------------------------------------
        if op.ok and not op.implicit:
            doc = self.read_profile_doc(op.data)
            if doc[0] == "bad":
                self.violate("C15", "J2-returned-not-whole", "returned",
                             f"{op.id} returned successfully but the document is {doc[1]}", identity=ident.key)
            elif doc[3] != fi.name:
                self.violate("C15", "J6-foreign-profile", "returned",
                             f"{op.id}: client configured for {ident.url} (server {fi.name}) was handed profile {doc[1]} of server {doc[3]}",
                             identity=ident.key, holds=doc[1])
            else:
                marker, date = doc[1], doc[2]
                resp = None
                for f, s in seen:
                    if f is fi and s.conn.delivered and s.sent_status == 0 and s.sent_profile is not None \
                            and s.behaviour != peers.B_GARBAGE_NEST:
                        resp = s.sent_profile
                sts = self.states_between(ident.key, op.t_invoke, op.t_return)
                if exact and sts and not any(st[0] in ("fail", "bad") for st in sts):
                    expected = set()
                    for st in sts:
                        cands = []
                        if st[0] == "profile" and st[3] == fi.name:
                            cands.append((st[2], st[1]))
                        if resp is not None:
                            cands.append((resp.date, resp.marker))
                        if cands:
                            expected.add(max(cands)[1])
                    if marker not in expected:
                        self.violate("C15", "J2-not-newest", "returned",
                                     f"{op.id} returned {marker} but the newest profile available to it was one of {sorted(expected)} "
                                     f"(cache {[state_str(x) for x in sts]}, this response carried {resp.marker if resp else None})",
                                     identity=ident.key)
                for prev in self.ops:
                    if prev is op or prev.ident.key != ident.key or not prev.ok or prev.t_return >= op.t_invoke:
                        continue
                    pd = getattr(prev, "ret_date", None)
                    if pd is not None and date < pd:
                        self.violate("C15", "J2-older-than-earlier-return", "returned",
                                     f"{op.id} returned {marker} ({date}) after {prev.id} had returned a newer profile ({pd})",
                                     identity=ident.key)
                op.ret_date = date
        # J3 ----------------------------------------------------------------------------
        profile_step_failed = op.ok is False and not (op.implicit and any(
            s.conn.delivered and s.sent_status in (0, 1) for f, s in seen if f is fi))
        if profile_step_failed and not overlapping and exact:
            for id2 in self.uidents:
                b = self.states_between(id2.key, op.t_invoke, op.t_invoke)
                a = self.states_between(id2.key, op.t_return, op.t_return)
                if b and a and b[-1][0] in ("absent", "profile") and a[-1] != b[-1]:
                    self.violate("C15", "J3-failed-call-changed-cache", "changed",
                                 f"{op.id} raised ({op.exc}) yet the cache of {id2.key} went from {state_str(b[-1])} to {state_str(a[-1])}",
                                 identity=id2.key)

    def judge_timeline(self):
        for ident in self.uidents:
            prev = None
            for ev, st, why in self.timeline.get(ident.key, []):
                if st[0] in ("fail", "bad"):
                    continue
                if st[0] == "profile" and st[3] != ident.fi.name:
                    continue
                if prev is not None and prev[0] == "profile":
                    if st[0] == "absent":
                        self.violate("C15", "J5-cache-regressed", "to-absent",
                                     f"cache of {ident.key} went from {state_str(prev)} to absent at event {ev} ({why})",
                                     identity=ident.key)
                    elif st[2] < prev[2]:
                        self.violate("C15", "J5-cache-regressed", "older-replaced-newer",
                                     f"cache of {ident.key} went from {state_str(prev)} back to {state_str(st)} at event {ev} ({why})",
                                     identity=ident.key)
                prev = st

    # -- the run ------------------------------------------------------------------------------
    def run(self):
        ch = self.ch
        sim = self.sim
        variant = ch.weighted("variant", [6, 3, 1])
        n_fi = 1 + ch.pick("cfg.n_fi", 2)
        urls = self.draw_fi_urls(n_fi)
        for i in range(n_fi):
            fi = self.add_fi(i, ch.pick("fi.svc", 3), False, ["v1u", "v1c"][ch.pick("fi.form", 2)],
                             ch.flag("fi.pretty", 0.3), msgsets=("BANK",), url_index=urls[i])
            fi.behaviour_fn = self.behaviour
        if variant != 2 and ch.flag("cfg.tenants", 0.25):
            base = self.fis[0]
            for j, key in enumerate(TENANTS[ch.pick("cfg.tenants.set", len(TENANTS))]):
                t = self.add_tenant(base, key, "tu"[j], 8 + j, bool(ch.pick("cfg.tenants.same_svc", 2)))
                t.behaviour_fn = self.behaviour
            sim.count("probe.multi_tenant_runs")
        self.faults_on = ch.flag("cfg.faults", 0.5)
        if self.faults_on:
            self.behs, self.beh_w = BEH_ALL, BEH_W_ALL
            self.enabled_faults = [k for k in NET_FAULTS if ch.flag("cfg.fault." + k, 0.5)]
            self.partitions = ch.flag("cfg.fault.partitions", 0.4)
        self.fs.bufsize = [8192, 512, 16][ch.pick("cfg.bufsize", 3)]
        n_slots = 1 + ch.pick("cfg.n_id", 3)
        if variant == 2:
            n_slots = 1
        slots = []
        for j in range(n_slots):
            fi = self.fis[ch.pick("id.fi", len(self.fis))]
            org, fid = ORGFID[ch.pick("id.orgfid", len(ORGFID))]
            if fi.tenant:
                org, fid = fi.tenant
            ver = VERSIONS[ch.pick("id.version", len(VERSIONS))]
            pretty = ch.flag("id.pretty", 0.2)
            close = True if ver >= 200 else not ch.flag("id.unclosed", 0.4)
            slots.append(Ident(j, fi, org, fid, ver, pretty, close, f"user{j}", f"pw{j}-secret"))
        self.slots = slots
        self.idents = []
        seenk = set()
        for s in slots:
            if s.key not in seenk:
                seenk.add(s.key)
                self.idents.append(s)
        self.uidents = self.idents
        self.fs.on_mutation = self.on_mutation
        self.fs.on_torn = self.on_torn
        self.disk_faults = []
        if self.faults_on:
            self.disk_faults = [k for k in ("enospc-on-write", "eio-on-replace", "eio-on-create", "short-write", "eacces-on-mkdir")
                                if ch.flag("cfg.fault.disk." + k, 0.35)]
            if self.disk_faults:
                self.fs.faults = self.disk_fault
                if "short-write" in self.disk_faults:
                    self.fs.short_write = self.short_write
        self.net.fault_policy = self.fault_policy
        self.net.latency = lambda: (1 + ch.pick("net.latency", 50)) / 100.0 if self.faults_on else 0.01
        for idn in slots:
            sim.log("config " + idn.describe())
        for fi in self.fis:
            sim.log(f"config server {fi.name} profile-url={fi.prof_url} service-url={fi.svc_url} form={fi.form}")
        for idn in self.idents:
            if idn.org and "/" in idn.org:
                # an ORG with a path separator names a file in a sub-directory of the cache directory; the library
                # creates only the cache directory itself, so the sub-directory is taken to exist already
                self.fs.makedirs(f"{DATA_DIR}/ofxtools/fiprofiles/{idn.org.rsplit('/', 1)[0]}")
        if n_fi >= 2 and ch.flag("cfg.legacy_files", 0.2):
            # the data directory is not always virgin: files written by an earlier version of the library under
            # its old naming scheme (<org>-<fid>.profrs), each holding a valid profile of *some* institution
            for idn in self.idents:
                other = [f for f in self.fis if f is not idn.fi]
                if not other or not ch.flag("cfg.legacy_files.this", 0.7):
                    continue
                src = other[ch.pick("cfg.legacy_files.from", len(other))]
                body = refofx.render_file(("OFX", [peers.sonrs_doc(peers.BASE_DATE), ("PROFMSGSRSV1", [("PROFTRNRS", [
                    ("TRNUID", "0"), peers.status_doc(0),
                    peers.profrs_doc(src.current, src.prof_url, src.trailing, src.msgsets, src.closing)])])]),
                    102, src.form, False)
                self.fs.write_bytes(f"{DATA_DIR}/ofxtools/fiprofiles/{idn.org}-{idn.fid}.profrs", body)
                sim.log(f"legacy cache file {idn.org}-{idn.fid}.profrs holds profile {src.current.marker}")
                sim.count("probe.legacy_cache_files_planted")
        self.probe_all("initial", charge=False)
        if variant == 0:
            self.run_histories()
        elif variant == 1:
            self.run_concurrent()
        else:
            self.run_scan()
        # J7: once faults stop, one call against a healthy server succeeds
        self.force_beh = peers.B_SPEC
        self.probe_budget = self.probes_done      # no more crash probes
        final = self.probe_all("end of run", charge=False)
        self.check_states(final, "at-rest", "at the end of the run")
        for ident in self.uidents:
            op = self.do_call(self.make_client(ident), ident, "final healthy call", {})
            if not op.ok:
                self.violate("C15", "J7-no-recovery", "healthy-call-fails",
                             f"after all faults stopped a fresh client of {ident.key} still cannot get its profile: {op.exc}",
                             identity=ident.key)
            else:
                doc = self.read_profile_doc(op.data)
                if doc[0] == "profile" and doc[3] == ident.fi.name and doc[1] != ident.fi.current.marker:
                    self.violate("C15", "J2-not-newest", "final",
                                 f"healthy final call of {ident.key} returned {doc[1]} but the server's current profile is {ident.fi.current.marker}",
                                 identity=ident.key)
                elif doc[0] == "bad":
                    self.violate("C15", "J2-returned-not-whole", "final",
                                 f"healthy final call of {ident.key} returned {doc[1]}", identity=ident.key)
                elif doc[0] == "profile" and doc[3] != ident.fi.name:
                    self.violate("C15", "J6-foreign-profile", "returned",
                                 f"final call: client configured for {ident.url} was handed profile {doc[1]} of server {doc[3]}",
                                 identity=ident.key, holds=doc[1])
        self.judge_timeline()

    def overrides(self):
        ch = self.ch
        over = {}
        if ch.flag("op.override", 0.25):
            v = (V1 + V2)[ch.pick("op.version", len(V1 + V2))]
            over["version"] = v
            over["prettyprint"] = bool(ch.pick("op.pretty", 2))
            over["close_elements"] = True if v >= 200 else not ch.pick("op.unclosed", 2)
        return over

    def run_histories(self):
        ch = self.ch
        sim = self.sim
        n_ops = 1 + ch.pick("n_ops", 6) + (ch.geometric("n_ops.more", 2, 8) if ch.flag("n_ops.long", 0.15) else 0)
        clients = {}
        if ch.flag("hist.prefill", 0.5):
            # most interesting states need a profile to be held already: start from a warm cache
            saved = (self.faults_on, self.force_beh)
            self.faults_on, self.force_beh = False, peers.B_SPEC
            for slot in self.slots:
                if slot.n not in clients:
                    clients[slot.n] = self.make_client(slot)
                op = self.do_call(clients[slot.n], slot, "prefill", {})
            self.faults_on, self.force_beh = saved
            self.probe_all("after prefill", charge=False)
        for k in range(n_ops):
            slot = self.slots[ch.pick("op.slot", len(self.slots))]
            if slot.n not in clients or ch.flag("op.restart", 0.25):
                if slot.n in clients:
                    sim.log(f"restart: fresh client object for slot {slot.n}")
                    sim.count("fault.process.restart")
                clients[slot.n] = self.make_client(slot)
            if ch.flag("op.think", 0.3):
                dt = [1.0, 3600.0, 86400.0, 400 * 86400.0, -86400.0, -3600.0][ch.pick("op.think.dt", 6)]
                sim.advance(dt)
                if dt < 0 or dt > 86400:
                    sim.count("fault.clock.jump")
            self.probe_all("before " + f"op{len(self.ops)}", charge=False)
            over = self.overrides()
            if ch.flag("op.crash", 0.2):
                # a real kill -9 somewhere inside this call; the history then continues in a new process
                self.crash_plan = {"at": ch.pick("op.crash.at", 5), "torn": ch.flag("op.crash.torn", 0.3)}
                self.crash_seen = 0
                self.crashed = None
                client = clients[slot.n]
                sim.spawn(f"P{k}", lambda: self.do_call(client, slot, "seq (to be killed)", over))
                sim.run_tasks()
                self.crash_plan = None
                op = self.ops[-1]
                if self.crashed:
                    op.ok = None
                    op.exc = "killed"
                    op.t_return = sim.evno
                    self.restart_process(self.crashed)
                    clients.clear()
                    self.nontrivial = True
                    st = self.probe_all("after restart", charge=False)
                    self.check_states(st, "after-real-crash", f"after the process was killed {self.crashed}")
                    continue
            elif ch.flag("op.implicit", 0.2):
                op = self.do_call(clients[slot.n], slot, ["implicit statements", "implicit accounts"][ch.pick("op.implicit.kind", 2)], {})
                sim.count("probe.implicit_profile_lookups")
            else:
                op = self.do_call(clients[slot.n], slot, "seq", over)
            self.probe_all("after " + op.id, charge=False)
            self.judge(op, overlapping=False)

    def run_concurrent(self):
        ch = self.ch
        sim = self.sim
        if ch.flag("conc.prefill", 0.5):
            slot = self.slots[0]
            op = self.do_call(self.make_client(slot), slot, "prefill", {})
            self.probe_all("after " + op.id, charge=False)
            self.judge(op, overlapping=False)
        k = 2 + ch.pick("conc.tasks", 3)
        if ch.flag("conc.stalls", 0.35):
            sim.seam_stall_k = [6, 15, 3][ch.pick("conc.stalls.k", 3)]
            sim.hot_salt = ch.pick("conc.stalls.salt", 1 << 16)
        shared = self.make_client(self.slots[0])
        task_ops = []

        def body(slot, client, calls):
            def fn():
                for over in calls:
                    task_ops.append(self.do_call(client, slot, "task", over))
            return fn
        for t in range(k):
            if len(self.slots) > 1 and ch.flag("conc.other_slot", 0.3):
                slot = self.slots[ch.pick("conc.slot", len(self.slots))]
                client = self.make_client(slot)
            else:
                slot = self.slots[0]
                client = shared if not ch.flag("conc.own_client", 0.3) else self.make_client(slot)
            n_calls = 1 + ch.pick("conc.calls", 2)
            calls = []
            for _ in range(n_calls):
                v = (V1 + V2)[ch.pick("op.version", len(V1 + V2))]
                calls.append({"version": v, "prettyprint": bool(ch.pick("op.pretty", 2)),
                              "close_elements": True if v >= 200 else not ch.pick("op.unclosed", 2)})
            sim.spawn(f"T{t}", body(slot, client, calls))
        if ch.flag("conc.crash", 0.15):
            # the whole process is killed somewhere in the middle of the concurrent phase
            self.crash_plan = {"at": ch.pick("conc.crash.at", 12), "torn": ch.flag("conc.crash.torn", 0.3)}
            self.crash_seen = 0
            self.crashed = None
        sim.run_tasks()
        self.crash_plan = None
        if self.crashed:
            for op in self.ops:
                if op.t_return is None:
                    op.ok = None
                    op.exc = "killed"
                    op.t_return = sim.evno
            self.restart_process(self.crashed)
            self.crashed = None
            st = self.probe_all("after restart", charge=False)
            self.check_states(st, "after-real-crash", "after the process was killed in the concurrent phase")
        if sim.switches > k:
            self.nontrivial = True
        self.probe_all("after concurrent phase", charge=False)
        for op in task_ops:
            over = any(o is not op and o.t_invoke < op.t_return and op.t_invoke < o.t_return for o in task_ops)
            self.judge(op, overlapping=over)

    def run_scan(self):
        ch = self.ch
        sim = self.sim
        from ofxtools.scripts import ofxget
        slot = self.slots[0]
        if ch.flag("scan.prefill", 0.3):
            op = self.do_call(self.make_client(slot), slot, "prefill", {})
            self.judge(op, overlapping=False)
        simexec.MAX_WORKERS_OVERRIDE = [44, 2, 8, 1, 16, 3][ch.pick("scan.max_workers", 6)]
        if ch.flag("scan.stalls", 0.35):
            sim.seam_stall_k = [10, 30][ch.pick("scan.stalls.k", 2)]
            sim.hot_salt = ch.pick("scan.stalls.salt", 1 << 16)
        jobs = []

        def on_start(f):
            op = Op(len(self.ops), slot, f"scan job {f.n}")
            self.ops.append(op)
            f.op = op
            self.net.op_of_task[sim.cur.name] = op.id
            op.skipped0 = self.probes_skipped
            op.t_invoke = sim.log(f"{op.id} invoke request_profile via scan job {f.n} {f.k}")

        def on_done(f):
            op = f.op
            if f._exc is None:
                op.ok = True
                try:
                    op.data = f._result.getvalue()
                except Exception:
                    op.data = b""
            else:
                op.ok = False
                op.exc = clean_exc(f._exc, 100)
            op.t_return = sim.log(f"{op.id} return " + ("ok" if op.ok else "raised " + op.exc))
            op.skipped_probes = self.probes_skipped - op.skipped0
            jobs.append(op)
        simexec.ON_JOB_START = on_start
        simexec.ON_JOB_DONE = on_done
        sim.log(f"scan {slot.key} max_workers={simexec.MAX_WORKERS_OVERRIDE}")
        try:
            res = ofxget._scan_profile(slot.url, slot.org, slot.fid, None, True,
                                       max_workers=simexec.MAX_WORKERS_OVERRIDE, timeout=2.0)
            sim.log(f"scan result v1={res[0]['versions']} v2={res[1]['versions']}")
        except (sched.Deadlock, sched.StepCap):
            raise
        except Exception as e:      # noqa
            sim.log(f"scan raised {clean_exc(e, 100)}")
        finally:
            simexec.ON_JOB_START = simexec.ON_JOB_DONE = None
        sim.count("probe.scan_runs")
        self.nontrivial = True
        self.probe_all("after scan", charge=False)
        for op in jobs:
            over = any(o is not op and o.t_invoke < op.t_return and op.t_invoke < o.t_return for o in jobs)
            self.judge(op, overlapping=over)


def run(ch, index, tier):
    w = C15(ch, tier)
    sim = w.sim
    aborted = None
    try:
        w.run()
    except sched.Deadlock as e:
        w.violate("C15", "J7-deadlock", "tasks", str(e))
        aborted = "deadlock"
    except sched.StepCap as e:
        w.violate("C15", "J7-no-progress", "stepcap", str(e))
        aborted = "stepcap"
    stats = dict(sim.stats)
    stats["sched.switches"] = sim.switches
    stats["probe.seam_yields"] = sim.steps
    seq = ">".join(w.beh_seq[:3])
    return {
        "violations": w.violations,
        "digest": sim.digest(),
        "sched_digest": sim.sched_h.hexdigest() if sim.switches > 1 else None,
        "nontrivial": bool(w.nontrivial),
        "stats": stats,
        "sim_time_s": (sim.now_us - sched.EPOCH_US) / 1e6,
        "decoded": sim.decoded,
        "summary": f"ops={len(w.ops)} probes={w.probes_done} skipped={w.probes_skipped} beh={seq} aborted={aborted}",
        "beh_seq": w.beh_seq[:3],
    }


def extra_coverage(results):
    seqs = set()
    for r in results:
        s = r.get("beh_seq") or []
        for k in range(1, len(s) + 1):
            seqs.add(tuple(s[:k]))
    n = len(BEH_ALL)
    return {"coverage_of_behaviour_sequences": {
        "distinct_prefixes_len_le_3": len(seqs), "possible": n + n * n + n * n * n}}
